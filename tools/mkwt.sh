#!/bin/sh
# usage: mkwt.sh <name>  -> creates /tmp/wt-<name>: a full scratch copy of /repo at its current HEAD (sources,
# .git and the already-built build directory _build, with timestamps preserved so that nothing is rebuilt needlessly)
set -e
WT=/tmp/wt-$1
[ -e "$WT" ] && { echo "$WT exists" >&2; exit 1; }
cp -a /repo "$WT"
echo "$WT"
