#!/bin/sh
# usage: inwt.sh <worktree-dir> <command...>
# Runs the command in a private mount namespace in which <worktree-dir> is mounted at /repo, so that the
# copied build directory (which contains absolute /repo paths) builds incrementally and ctest works.
WT=$1; shift
exec unshare -m sh -c 'mount --bind "$0" /repo && cd /repo && exec "$@"' "$WT" "$@"
