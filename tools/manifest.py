#!/usr/bin/env python3
"""Regenerates /verif/MANIFEST.json from the table below (and validates it when jsonschema is available)."""
import json, os, sys
V = os.path.dirname(os.path.dirname(os.path.abspath(__file__)))
props = [json.loads(l) for l in open(os.path.join(V, "properties.jsonl"))]
sys.path.insert(0, V)
from tools.manifest_table import CHECKS, HOOK_COMMITS, NOT_APPLICABLE_REASON, ENGINES

checks = []
for pid, c in CHECKS.items():
    e = {"property_id": pid,
         "quick_cmd": "bin/check %s --tier quick" % pid,
         "thorough_cmd": "bin/check %s --tier thorough" % pid,
         "evidence_file": "evidence/%s.json" % pid,
         "replay_cmd_template": "bin/check %s --replay {path}" % pid,
         "engine": c["engine"],
         "level_claimed": {"category": c["category"], "text": c["text"], "design_ref": c.get("design_ref", "DESIGN.md section 5 (%s)" % pid)},
         "level_note": c["note"],
         "technique": c["technique"]}
    checks.append(e)
na = [{"property_id": p["id"], "reason": NOT_APPLICABLE_REASON.get(p["id"], "check not built yet (construction in progress; DESIGN.md section 8 gives the build order)")}
      for p in props if p["id"] not in CHECKS]
m = {"version": 1,
     "setup_cmd": "bin/setup",
     "hooks": {"guard": "SOUFFLE_VERIF_HOOKS",
               "enable": "checks that need the hook compile the single hooked translation unit with -DSOUFFLE_VERIF_HOOKS and relink a private binary under /verif/build/hooked (see DESIGN.md section 6); the normal build never defines the guard",
               "baseline_off_cmd": "cmake --build /repo/_build && ctest --test-dir /repo/_build -j8 --timeout 900",
               "source_commits": HOOK_COMMITS, "add_only": True},
     "engines": ENGINES,
     "checks": checks,
     "notes": "All verdicts come from exhaustive enumeration inside stated bounds (DESIGN.md section 1). exit 0 = held, 1 = VIOLATION line, 2 = machinery error.",
     "not_applicable": na}
json.dump(m, open(os.path.join(V, "MANIFEST.json"), "w"), indent=1)
try:
    import jsonschema
    jsonschema.validate(m, json.load(open("/root/.vp/MANIFEST.schema.json")))
    print("MANIFEST valid;", len(checks), "checks,", len(na), "not applicable")
except ImportError:
    print("written (jsonschema not available for validation; run with python3-vt)")
