#!/usr/bin/env python3
"""Resolve every fixed entry of known_findings.json to the current hash of its fix commit in /repo (the commit is found by
its subject line, kept in "commit_subject"), and write the line format `fixed: property=<id> <commit> <what failed>`."""
import json, re, subprocess
p = "/verif/known_findings.json"
d = json.load(open(p))
for e in d["findings"]:
    if e["status"] != "fixed":
        continue
    subj = e.get("commit_subject")
    if not subj:
        m = re.search(r"--grep '([^']+)'", e.get("commit", ""))
        subj = m.group(1)
        e["commit_subject"] = subj
    out = subprocess.run(["git", "-C", "/repo", "log", "--format=%h %s", "--fixed-strings", "--grep", subj], stdout=subprocess.PIPE, text=True).stdout.strip().splitlines()
    assert len(out) == 1 and out[0].split(" ", 1)[1].startswith("fix:"), (subj, out)
    h = out[0].split()[0]
    e["commit"] = h
    t = e["title"]
    t = re.sub(r"^fixed: property=(C\d\d) (?:fix-commit '[^']*'|[0-9a-f]{7,12}):?", r"fixed: property=\1 %s" % h, t)
    if not t.startswith("fixed: property="):
        t = "fixed: property=%s %s %s" % (e["property"], h, t)
    e["title"] = t
json.dump(d, open(p, "w"), indent=1)
for e in d["findings"]:
    if e["status"] == "fixed":
        print(e["title"][:150])
