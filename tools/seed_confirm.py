#!/usr/bin/env python3
"""usage: seed_confirm.py <seed-id> <property> <worktree> "<needs>" "<tests run by whom>"
Runs the seeded change's demonstration against the mutated tree (must fail) and against /repo (must pass) and
writes /verif/seeded/<id>/meta.json."""
import json, os, subprocess, sys, time
sid, prop, wt, needs, tests = sys.argv[1:6]
d = os.path.join("/verif/seeded", sid)
def run(cmd):
    r = subprocess.run(cmd, stdout=subprocess.PIPE, stderr=subprocess.STDOUT, text=True, timeout=7200)
    return r.returncode, r.stdout[-1500:]
demo = os.path.join(wt, "MUTANT", "demo.sh")
rc_mut, out_mut = run(["/tmp/mut/inwt.sh", wt, "bash", demo, "/repo"])
rc_ref, out_ref = run(["bash", os.path.join(d, "demo.sh"), "/repo"])
meta = {"id": sid, "property": prop, "needs_to_manifest": needs,
        "demo_on_mutated_tree": {"exit": rc_mut, "tail": out_mut[-600:]},
        "demo_on_unmodified_tree": {"exit": rc_ref, "tail": out_ref[-300:]},
        "existing_tests": tests,
        "confirmed_at": time.strftime("%Y-%m-%d %H:%M"),
        "confirmed": rc_mut != 0 and rc_ref == 0}
json.dump(meta, open(os.path.join(d, "meta.json"), "w"), indent=1)
print(json.dumps(meta, indent=1)[:1500])
