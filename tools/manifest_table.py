HOOK_COMMITS = []
NOT_APPLICABLE_REASON = {}
ENGINES = [
 {"name": "dlmc", "path": "dlmc/", "serves_properties": ["C01"], "kind_free_text": "bounded-exhaustive Datalog program/database/configuration enumeration against a naive reference evaluator (python), batched runner"},
]
_DL = "the reference evaluator dlmc/ref.py + dlmc/vals.py defines the expected model (independent naive implementation); bounds as stated in the evidence file; cases whose reference evaluation leaves the defined value domain are skipped and counted"
CHECKS = {
 "C01": {"engine": "dlmc", "category": "exploration", "technique": "bounded-exhaustive enumeration of programs x databases vs reference model",
         "text": "Every rule shape of each family up to its size bound is run on every database of a tiny-domain enumeration in the interpreter and compared, relation by relation, with an independent naive stratified evaluator; covers all shapes below the bound rather than the handful a test samples.",
         "note": _DL},
}
