HOOK_COMMITS = []
NOT_APPLICABLE_REASON = {}
ENGINES = [
 {"name": "dlmc", "path": "dlmc/", "serves_properties": ["C01", "C02"], "kind_free_text": "bounded-exhaustive Datalog program/database/configuration enumeration against a naive reference evaluator (python), batched runner"},
 {"name": "vsched", "path": "vsched/", "serves_properties": ["C25", "C26", "C27", "C28", "C29", "C30", "C31"], "kind_free_text": "serialising scheduler + preemption-bounded stateless DFS over the real C++ headers; hooks = compiler TSan instrumentation linked against vsched's own __tsan_*/pthread_*/omp_* definitions (no source changes)"},
]
_DL = "the reference evaluator dlmc/ref.py + dlmc/vals.py defines the expected model (independent naive implementation); bounds as stated in the evidence file; cases whose reference evaluation leaves the defined value domain are skipped and counted"
_VS = "sequentially consistent executions only (no weak-memory reorderings); compare_exchange_weak never fails spuriously; instrumented code compiled at -O1; at most 3 virtual threads; bounds as reported in the evidence file"
_SEQ = "explicit-state BFS over operation histories replayed on fresh real objects; states deduplicated by a canonical dump of the whole representation; bounds (depth, key alphabet) as reported"
CHECKS = {
 "C01": {"engine": "dlmc", "category": "exploration", "technique": "bounded-exhaustive enumeration of programs x databases vs reference model",
         "text": "Every rule shape of each family up to its size bound is run on every database of a tiny-domain enumeration in the interpreter and compared, relation by relation, with an independent naive stratified evaluator; covers all shapes below the bound rather than the handful a test samples.",
         "note": _DL},
 "C02": {"engine": "dlmc", "category": "exploration", "technique": "bounded-exhaustive enumeration of programs x databases x {-g, -G, interpreter} vs reference model",
         "text": "The same enumeration as C01 (smaller alphabets) is generated to C++ in single-file and multi-file mode, compiled against the working tree's headers and compared with the reference model and the interpreter.",
         "note": _DL + "; generated code is compiled by the check with clang++ -O0 (not -O3 through souffle-compile.py)"},
 "C25": {"engine": "vsched", "category": "model_checking", "technique": "stateless model checking (preemption-bounded DFS) of the real btree_set/btree_multiset",
         "text": "All schedules with at most 2-3 preemptions of 2-3 threads inserting into real 3-key-node B-trees built from 8 base shapes, every operation list over a shape-derived colliding key alphabet, each final tree compared with a sorted-set model on iteration, size, insert results, bounds, chunks.",
         "note": _VS},
 "C27": {"engine": "vsched", "category": "model_checking", "technique": "stateless model checking (preemption-bounded DFS) of the real Trie<1..4>",
         "text": "All schedules with at most 2-3 preemptions of 2-3 threads inserting sparse tuples into real Brie tries, compared with a set model on iteration, membership, every prefix range, size and partition.",
         "note": _VS},
 "C29": {"engine": "vsched", "category": "model_checking", "technique": "stateless model checking (preemption-bounded DFS) of the real DisjointSet with a per-step invariant",
         "text": "All schedules with at most 3-5 preemptions of every union/find/sameSet mix (2x<=2 or 3x1 operations, 3-4 nodes): forest + rank + monotone-connectivity invariant after every atomic step, every answer linearizable, final partition = closure.",
         "note": _VS},
 "C30": {"engine": "vsched", "category": "model_checking", "technique": "stateless model checking (preemption-bounded DFS) of the real OptimisticReadWriteLock with ghost state",
         "text": "All schedules with at most 2-4 preemptions of every mix of 2-3 clients running read/validate, write, try-write, upgrade, write-abort, upgrade-abort on the real lock; ghost data detects two writers, torn validated reads, lost version restoration, deadlock and livelock.",
         "note": _VS},
 "C26": {"engine": "vsched", "category": "model_checking", "technique": "explicit-state BFS over all insert/erase histories (state = tree shape) + stateless model checking of concurrent inserts",
         "text": "Every insert/erase/iterator-erase history over small key sets on the real deletable B-tree (3-key nodes; reachable shape space closed where finite) with the full query battery in every state; concurrent insertion as in C25.",
         "note": _SEQ + "; " + _VS},
 "C28": {"engine": "vsched", "category": "model_checking", "technique": "explicit-state BFS over all insert/insertAll/extendAndInsert/query histories + stateless model checking of concurrent inserts",
         "text": "Every history (depth 3-6) of pair insertions, bulk merges, extend-and-insert and query batteries over elements including the 32-bit extremes on the real EquivalenceRelation, state = forest + cache + stale flag, closure model compared on size, all iteration forms, partitions; plus all schedules up to the preemption bound of concurrent inserts.",
         "note": _SEQ + "; " + _VS},
 "C31": {"engine": "vsched", "category": "model_checking", "technique": "stateless model checking (preemption-bounded DFS) of the real ConcurrentFlyweight / SymbolTableImpl / RecordTable",
         "text": "All schedules with at most 2-4 preemptions of concurrent findOrInsert/encode/pack histories with duplicates on tiny-capacity tables with a one-bucket hash (slot growth, bucket growth, bucket CAS and the lane lock-all protocol collide); bijection, fetch/decode/unpack, exactly-once insertion, nil never returned, iteration complete.",
         "note": _VS},
}
