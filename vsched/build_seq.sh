#!/bin/sh
# usage: build_seq.sh <harness-name>  -> /verif/build/vs/<name> (plain sequential program, real OpenMP code paths)
set -e
V=$(cd "$(dirname "$0")/.." && pwd)
REPO=${VERIF_REPO:-/repo}
OUT=$V/build/vs
mkdir -p "$OUT"
N=$1; shift
g++ -std=c++17 -O1 -g0 -w -fopenmp -fno-access-control -I"$REPO/src/include" -I"$V/vsched" "$@" "$V/vsched/harness/$N.cpp" -o "$OUT/$N" -lpthread
echo "$OUT/$N"
