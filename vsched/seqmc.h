// seqmc: explicit-state breadth-first search over sequential operation histories of a real object.
// A state is the operation history that reaches it, replayed on a fresh object; states are deduplicated by a
// canonical dump of the whole representation; every operation of the alphabet is applied in every state; the
// oracle (model comparison + query battery) is evaluated in every state; canon-on-replay is asserted.
#pragma once
#include <signal.h>
#include <unistd.h>
#include <cstdio>
#include <cstdlib>
#include <cstring>
#include <deque>
#include <string>
#include <unordered_map>
#include <vector>

namespace seqmc {
struct Op { int kind, a, b; };
using Hist = std::vector<Op>;

// provided by the harness
std::vector<Op> alphabet(int variant);
std::string opname(const Op&);
// replays hist on a fresh object, returns canonical dump in canon, runs the oracle; returns false + why on violation
bool run(int variant, const Hist& hist, std::string& canon, std::string& why);
int nvariants();
const char* variant_name(int v);

inline std::string hist_str(const Hist& h) {
    std::string s;
    for (auto& o : h) s += opname(o) + " ";
    return s;
}
inline std::string jesc(const std::string& s) {
    std::string o;
    for (unsigned char c : s) {
        if (c == '"' || c == '\\') { o += '\\'; o += (char)c; }
        else if (c == '\n') o += "\\n";
        else if (c < 32 || c > 126) { char b[8]; snprintf(b, sizeof b, "\\u%04x", c); o += b; }
        else o += (char)c;
    }
    return o;
}

// A history on which the real object crashes or does not return is a violation too: the history being executed is kept in a
// static buffer and reported from a signal handler (SIGALRM after 30 s, SIGSEGV, SIGABRT, SIGBUS, SIGFPE).
static char g_cur_raw[8192];
static char g_cur_name[128];
static long g_cur_states = 0, g_cur_transitions = 0;
static int g_cur_replay = 0;
inline void on_fatal(int sig) {
    char buf[20000];
    int n;
    if (g_cur_replay)
        n = snprintf(buf, sizeof buf, "{\"replay\": true, \"history\": \"%s\", \"ok\": false, \"why\": \"the history crashed or did not return (signal %d)\"}\n", g_cur_raw, sig);
    else
        n = snprintf(buf, sizeof buf, "{\"variant\": \"%s\", \"depth\": 0, \"states\": %ld, \"transitions\": %ld, \"max_depth\": 0, \"capped\": false, \"sample\": \"\", "
                     "\"violation\": {\"history\": \"%s\", \"raw\": \"%s\", \"why\": \"the history crashed or did not return (signal %d)\"}}\n",
                     g_cur_name, g_cur_states, g_cur_transitions, g_cur_raw, g_cur_raw, sig);
    if (n > 0) (void)!write(1, buf, (size_t)n);
    _exit(1);
}
inline void guard(const Hist& h) {
    size_t k = 0;
    for (auto& x : h) {
        int n = snprintf(g_cur_raw + k, sizeof g_cur_raw - k, "%d:%d:%d,", x.kind, x.a, x.b);
        if (n < 0 || k + (size_t)n >= sizeof g_cur_raw) break;
        k += (size_t)n;
    }
    g_cur_raw[k] = 0;
    alarm(30);
}

inline int main_(int argc, char** argv) {
    for (int sg : {SIGALRM, SIGSEGV, SIGABRT, SIGBUS, SIGFPE}) signal(sg, on_fatal);
    int depth = 6, variant = 0;
    long max_states = 0;
    const char* replay = nullptr;
    for (int i = 1; i < argc; i++) {
        std::string a = argv[i];
        if (a == "--depth" && i + 1 < argc) depth = atoi(argv[++i]);
        else if (a == "--variant" && i + 1 < argc) variant = atoi(argv[++i]);
        else if (a == "--max-states" && i + 1 < argc) max_states = atol(argv[++i]);
        else if (a == "--replay" && i + 1 < argc) replay = argv[++i];
        else if (a == "--variants") { for (int v = 0; v < nvariants(); v++) printf("%d\t%s\n", v, variant_name(v)); return 0; }
    }
    std::vector<Op> al = alphabet(variant);
    snprintf(g_cur_name, sizeof g_cur_name, "%s", variant_name(variant));
    if (replay) {
        // replay: "kind:a:b,kind:a:b,..."
        Hist h;
        const char* s = replay;
        while (*s) {
            Op o;
            o.kind = (int)strtol(s, (char**)&s, 10); if (*s == ':') s++;
            o.a = (int)strtol(s, (char**)&s, 10); if (*s == ':') s++;
            o.b = (int)strtol(s, (char**)&s, 10); if (*s == ',') s++;
            h.push_back(o);
        }
        std::string canon, why;
        g_cur_replay = 1;
        guard(h);
        bool ok = run(variant, h, canon, why);
        alarm(0);
        printf("{\"replay\": true, \"history\": \"%s\", \"ok\": %s, \"why\": \"%s\"}\n", jesc(hist_str(h)).c_str(), ok ? "true" : "false", jesc(why).c_str());
        return ok ? 0 : 1;
    }
    std::unordered_map<std::string, int> seen;
    std::deque<Hist> frontier;
    long states = 0, transitions = 0;
    int maxdepth = 0;
    bool capped = false;
    std::string sample;
    {
        std::string canon, why;
        Hist h;
        if (!run(variant, h, canon, why)) { printf("{\"variant\": \"%s\", \"states\": 1, \"transitions\": 0, \"violation\": {\"history\": \"\", \"raw\": \"\", \"why\": \"%s\"}}\n", variant_name(variant), jesc(why).c_str()); return 1; }
        seen[canon] = 0;
        frontier.push_back(h);
        states = 1;
    }
    while (!frontier.empty()) {
        Hist h = frontier.front();
        frontier.pop_front();
        if ((int)h.size() >= depth) continue;
        for (auto& o : al) {
            Hist h2 = h;
            h2.push_back(o);
            std::string canon, why;
            transitions++;
            g_cur_states = states; g_cur_transitions = transitions;
            guard(h2);
            bool ok = run(variant, h2, canon, why);
            alarm(0);
            if (ok) {
                // canon-on-replay: the same history must reach the same state again
                if ((transitions & 1023) == 1) {
                    std::string c2, w2;
                    run(variant, h2, c2, w2);
                    if (c2 != canon) { fprintf(stderr, "seqmc: replay of a history reached a different state (nondeterminism)\n"); return 2; }
                }
            }
            if (!ok) {
                std::string raw;
                for (auto& x : h2) raw += std::to_string(x.kind) + ":" + std::to_string(x.a) + ":" + std::to_string(x.b) + ",";
                printf("{\"variant\": \"%s\", \"depth\": %d, \"states\": %ld, \"transitions\": %ld, \"max_depth\": %d, \"capped\": false, \"sample\": \"%s\", "
                       "\"violation\": {\"history\": \"%s\", \"raw\": \"%s\", \"why\": \"%s\"}}\n",
                       variant_name(variant), depth, states, transitions, maxdepth, jesc(sample).c_str(), jesc(hist_str(h2)).c_str(), raw.c_str(), jesc(why).c_str());
                return 1;
            }
            if (!seen.count(canon)) {
                seen[canon] = (int)h2.size();
                states++;
                if ((int)h2.size() > maxdepth) maxdepth = (int)h2.size();
                if (states == 50 || sample.empty()) sample = hist_str(h2) + "=> " + canon.substr(0, 200);
                frontier.push_back(h2);
                if (max_states > 0 && states >= max_states) { capped = true; frontier.clear(); break; }
            }
        }
    }
    printf("{\"variant\": \"%s\", \"depth\": %d, \"states\": %ld, \"transitions\": %ld, \"max_depth\": %d, \"capped\": %s, \"sample\": \"%s\", \"violation\": null}\n",
           variant_name(variant), depth, states, transitions, maxdepth, capped ? "true" : "false", jesc(sample).c_str());
    return 0;
}
}  // namespace seqmc
