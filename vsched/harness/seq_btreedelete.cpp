// C26: deletable B-trees behave as sorted sets — explicit-state search over insert/erase histories on the real
// btree_delete_set / btree_delete_multiset with 3-key nodes; state = printed tree shape.
#include "seqmc.h"
#include "souffle/datastructure/BTreeDelete.h"
#include <set>
#include <sstream>

using namespace souffle;
using namespace seqmc;

namespace {
using SetT = btree_delete_set<int, detail::comparator<int>, std::allocator<int>, 16>;
using MultiT = btree_delete_multiset<int, detail::comparator<int>, std::allocator<int>, 16>;
using BigT = btree_delete_set<int>;   // default block size, keys spread over the 32-bit range

const int BIGKEYS[] = {-2147483647 - 1, -65536, -1, 0, 1, 65536, 2147483647};

template <typename Tree, bool isSet>
bool run_tree(const Hist& hist, std::string& canon, std::string& why, int nkeys, bool big) {
    Tree t;
    std::multiset<int> model;
    auto key = [&](int a) { return big ? BIGKEYS[a] : a; };
    for (auto& o : hist) {
        int k = key(o.a);
        if (o.kind == 0) {
            bool r = t.insert(k);
            bool want = isSet ? (model.count(k) == 0) : true;
            if (want) model.insert(k);
            if (r != want) { why = "insert(" + std::to_string(k) + ") returned " + std::to_string(r); return false; }
        } else if (o.kind == 1) {
            std::size_t r = t.erase(k);
            std::size_t want = model.count(k);
            model.erase(k);
            if (r != want) { why = "erase(" + std::to_string(k) + ") returned " + std::to_string(r) + " instead of " + std::to_string(want); return false; }
        } else {
            // erase through an iterator positioned by find
            auto it = t.find(k);
            bool has = model.count(k) > 0;
            if ((it != t.end()) != has) { why = "find(" + std::to_string(k) + ") wrong before iterator erase"; return false; }
            if (has) {
                t.erase(it);
                model.erase(model.find(k));
            }
        }
    }
    std::ostringstream os;
    t.printTree(os);
    {
        // the printed tree contains node addresses: drop them (shape and keys remain)
        std::string raw = os.str();
        canon.clear();
        for (size_t i = 0; i < raw.size(); i++) {
            if (raw[i] == '0' && i + 1 < raw.size() && raw[i + 1] == 'x') {
                i += 2;
                while (i < raw.size() && isxdigit((unsigned char)raw[i])) i++;
                i--;
                canon += 'P';
            } else canon += raw[i];
        }
    }
    // oracle
    std::vector<int> got, want(model.begin(), model.end());
    for (auto it = t.begin(); it != t.end(); ++it) got.push_back(*it);
    if (got != want) { why = "iteration differs from the sorted-set model"; return false; }
    if (t.size() != want.size()) { why = "size() = " + std::to_string(t.size()) + ", model has " + std::to_string(want.size()); return false; }
    if (t.empty() != want.empty()) { why = "empty() wrong"; return false; }
    if (!t.check()) { why = "structural check() failed"; return false; }
    for (int a = -1; a <= nkeys + 1; a++) {
        std::vector<int> probes;
        if (big) {
            if (a < 0 || a >= nkeys) continue;
            probes = {BIGKEYS[a]};
            if (BIGKEYS[a] > -2147483647 - 1) probes.push_back(BIGKEYS[a] - 1);
            if (BIGKEYS[a] < 2147483647) probes.push_back(BIGKEYS[a] + 1);
        } else probes = {a};
        for (int k : probes) {
            bool has = model.count(k) > 0;
            if (t.contains(k) != has) { why = "contains(" + std::to_string(k) + ") wrong"; return false; }
            auto f = t.find(k);
            if ((f != t.end()) != has || (has && *f != k)) { why = "find(" + std::to_string(k) + ") wrong"; return false; }
            auto lb = t.lower_bound(k);
            auto elb = model.lower_bound(k);
            if ((lb == t.end()) != (elb == model.end()) || (lb != t.end() && *lb != *elb)) { why = "lower_bound(" + std::to_string(k) + ") wrong"; return false; }
            auto ub = t.upper_bound(k);
            auto eub = model.upper_bound(k);
            if ((ub == t.end()) != (eub == model.end()) || (ub != t.end() && *ub != *eub)) { why = "upper_bound(" + std::to_string(k) + ") wrong"; return false; }
        }
    }
    for (int n = 1; n <= 4; n++) {
        std::vector<int> all;
        for (auto& c : t.getChunks(n))
            for (auto it = c.begin(); it != c.end(); ++it) all.push_back(*it);
        if (all != want) { why = "getChunks(" + std::to_string(n) + ") does not partition the iteration"; return false; }
    }
    return true;
}
}  // namespace

namespace seqmc {
int nvariants() { return 7; }
const char* variant_name(int v) {
    const char* n[] = {"set-keys1..8", "multiset-keys1..4", "set-keys1..10", "set-bigrange-defaultblock", "set-18keys-built-ascending", "set-18keys-built-descending", "set-18keys-built-interleaved"};
    return n[v];
}
std::vector<Op> alphabet(int variant) {
    std::vector<Op> a;
    int n = variant == 0 ? 8 : variant == 1 ? 4 : variant == 2 ? 10 : variant >= 4 ? 18 : 7;
    for (int k = 1; k <= n; k++) {
        int kk = variant == 3 ? k - 1 : k;
        a.push_back({0, kk, 0});
        a.push_back({1, kk, 0});
        if (variant == 1 || variant == 3) a.push_back({2, kk, 0});
    }
    return a;
}
std::string opname(const Op& o) {
    const char* k[] = {"ins", "del", "delit"};
    return std::string(k[o.kind]) + std::to_string(o.a);
}
bool run(int variant, const Hist& h, std::string& canon, std::string& why) {
    if (variant == 0) return run_tree<SetT, true>(h, canon, why, 8, false);
    if (variant == 1) return run_tree<MultiT, false>(h, canon, why, 4, false);
    if (variant == 2) return run_tree<SetT, true>(h, canon, why, 10, false);
    // non-initial start states: a three-level tree of 18 keys built in a fixed order, then every history of erases and
    // re-inserts (inner nodes underflow, rebalance from either sibling, merge, the root shrinks)
    if (variant >= 4) {
        Hist full;
        for (int i = 1; i <= 18; i++) {
            int k = variant == 4 ? i : variant == 5 ? 19 - i : (i % 2 ? (i + 1) / 2 : 19 - i / 2);
            full.push_back({0, k, 0});
        }
        full.insert(full.end(), h.begin(), h.end());
        return run_tree<SetT, true>(full, canon, why, 18, false);
    }
    return run_tree<BigT, true>(h, canon, why, 7, true);
}
}  // namespace seqmc

int main(int argc, char** argv) { return seqmc::main_(argc, argv); }
