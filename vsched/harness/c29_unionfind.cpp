// C29: lock-free union-find is linearizable — real DisjointSet under vsched.
#include "vsched.h"
#include "souffle/datastructure/UnionFind.h"
#include <string>
#include <vector>

using namespace souffle;

#ifndef UF_NODES
#define UF_NODES 3
#endif

namespace {
struct Op { int kind; int a, b; };   // 0 union, 1 find, 2 sameSet
struct Scenario { std::vector<std::vector<Op>> th; std::vector<Op> base; };   // base: unions applied sequentially before the threads start
std::vector<Scenario> scenarios;
std::string descbuf;

struct State {
    DisjointSet ds;
    Scenario sc;
    int bad = 0;
    std::string why;
    int reach[8][8];
};
State* st;

void fail(const std::string& w) { if (!st->bad) { st->bad = 1; st->why = w; } }

// --- raw snapshot helpers (called inside vs::Quiet)
int raw_parent(int x) { return (int)DisjointSet::b2p(st->ds.get(x).load()); }
int raw_rank(int x) { return (int)DisjointSet::b2r(st->ds.get(x).load()); }
int raw_root(int x) {
    for (int k = 0; k < 64; k++) { int p = raw_parent(x); if (p == x) return x; x = p; }
    return -1;   // cycle
}
bool raw_connected(int a, int b) {
    int ra = raw_root(a), rb = raw_root(b);
    return ra >= 0 && ra == rb;
}

std::string dump() {
    std::string o = " [parent/rank:";
    for (int x = 0; x < UF_NODES; x++) o += " " + std::to_string(x) + "->" + std::to_string(raw_parent(x)) + "/" + std::to_string(raw_rank(x));
    return o + "]";
}

int step_invariant(std::string& why) {
    for (int x = 0; x < UF_NODES; x++) {
        int p = raw_parent(x);
        if (p < 0 || p >= UF_NODES) { why = "parent out of range"; return 1; }
        if (raw_root(x) < 0) { why = "parent links form a cycle through node " + std::to_string(x) + dump(); return 1; }
        if (p != x && raw_rank(p) < raw_rank(x)) { why = "rank decreases along the parent link of node " + std::to_string(x) + dump(); return 1; }
    }
    // connectivity is monotone: once related, always related
    for (int a = 0; a < UF_NODES; a++)
        for (int b = 0; b < UF_NODES; b++) {
            bool c = raw_connected(a, b);
            if (st->reach[a][b] && !c) { why = "nodes " + std::to_string(a) + "," + std::to_string(b) + " were in one set and are separated again"; return 1; }
            if (c) st->reach[a][b] = 1;
        }
    return 0;
}

void build() {
    if (!scenarios.empty()) return;
    std::vector<Op> alpha;
    for (int a = 0; a < UF_NODES; a++)
        for (int b = a + 1; b < UF_NODES; b++) alpha.push_back({0, a, b});
    for (int a = 0; a < UF_NODES; a++)
        for (int b = a + 1; b < UF_NODES; b++) alpha.push_back({0, b, a});
    for (int a = 0; a < UF_NODES; a++) alpha.push_back({1, a, 0});
    for (int a = 0; a < UF_NODES; a++)
        for (int b = a + 1; b < UF_NODES; b++) alpha.push_back({2, a, b});
    std::vector<std::vector<Op>> lists;
    for (auto& o : alpha) lists.push_back({o});
    for (auto& o : alpha)
        for (auto& p : alpha) lists.push_back({o, p});
    auto has_union = [](const std::vector<Op>& l) { for (auto& o : l) if (o.kind == 0) return true; return false; };
    // 2 threads: unordered pairs of op lists, at least one union somewhere
    for (size_t i = 0; i < lists.size(); i++)
        for (size_t j = i; j < lists.size(); j++) {
            if (!has_union(lists[i]) && !has_union(lists[j])) continue;
            scenarios.push_back({{lists[i], lists[j]}});
        }
    // 3 threads x 1 op, at least two unions
    for (size_t i = 0; i < alpha.size(); i++)
        for (size_t j = i; j < alpha.size(); j++)
            for (size_t k = j; k < alpha.size(); k++) {
                int nu = (alpha[i].kind == 0) + (alpha[j].kind == 0) + (alpha[k].kind == 0);
                if (nu < 2) continue;
                scenarios.push_back({{{alpha[i]}, {alpha[j]}, {alpha[k]}}});
            }
    // the same alphabet started from non-initial forests (2 threads x 1 operation and 1 + 2 operations)
    std::vector<std::vector<Op>> bases = {{{0, 0, 1}}, {{0, 1, 0}}};
#if UF_NODES >= 4
    bases.push_back({{0, 0, 1}, {0, 2, 3}});
    bases.push_back({{0, 1, 0}, {0, 3, 2}});
    bases.push_back({{0, 0, 1}, {0, 1, 2}});
    bases.push_back({{0, 0, 1}, {0, 2, 3}, {0, 1, 3}});
#endif
    std::vector<std::vector<Op>> singles, doubles;
    for (auto& o : alpha) singles.push_back({o});
    for (auto& o : alpha)
        for (auto& p : alpha)
            if (o.kind != 1 && p.kind != 1) doubles.push_back({o, p});
    for (auto& b : bases) {
        for (size_t i = 0; i < singles.size(); i++)
            for (size_t j = i; j < singles.size(); j++) {
                if (!has_union(singles[i]) && !has_union(singles[j])) continue;
                scenarios.push_back({{singles[i], singles[j]}, b});
            }
#if UF_NODES < 4
        for (size_t i = 0; i < singles.size(); i++)
            for (size_t j = 0; j < doubles.size(); j++) {
                if (!has_union(singles[i]) && !has_union(doubles[j])) continue;
                scenarios.push_back({{singles[i], doubles[j]}, b});
            }
#endif
    }
}
std::string opname(const Op& o) {
    const char* k[] = {"union", "find", "same"};
    if (o.kind == 1) return std::string(k[1]) + "(" + std::to_string(o.a) + ")";
    return std::string(k[o.kind]) + "(" + std::to_string(o.a) + "," + std::to_string(o.b) + ")";
}
}  // namespace

extern "C" int vs_nscenarios() { build(); return (int)scenarios.size(); }
extern "C" const char* vs_describe(int s) {
    build();
    descbuf.clear();
    if (!scenarios[s].base.empty()) {
        descbuf += "base{";
        for (auto& o : scenarios[s].base) descbuf += std::to_string(o.a) + "+" + std::to_string(o.b) + " ";
        descbuf += "} ";
    }
    for (auto& t : scenarios[s].th) {
        descbuf += "[";
        for (auto& o : t) descbuf += opname(o) + " ";
        descbuf += "] ";
    }
    return descbuf.c_str();
}
extern "C" int vs_setup(int s) {
    build();
    st = new State();
    st->sc = scenarios[s];
    for (int i = 0; i < UF_NODES; i++) st->ds.makeNode();
    for (auto& o : st->sc.base) st->ds.unionNodes(o.a, o.b);
    for (int a = 0; a < 8; a++) for (int b = 0; b < 8; b++) st->reach[a][b] = 0;
    vs::set_step_invariant(step_invariant);
    return (int)st->sc.th.size();
}
extern "C" void vs_thread(int tid) {
    for (auto& o : st->sc.th[tid]) {
        if (o.kind == 0) {
            st->ds.unionNodes(o.a, o.b);
            bool c;
            { vs::Quiet q; c = raw_connected(o.a, o.b); }
            if (!c) { vs::Quiet q; fail("union(" + std::to_string(o.a) + "," + std::to_string(o.b) + ") returned but the nodes are not in one set"); }
            vs::note("u ");
        } else if (o.kind == 1) {
            int r = (int)st->ds.findNode(o.a);
            bool c;
            { vs::Quiet q; c = r >= 0 && r < UF_NODES && raw_connected(o.a, r); }
            if (!c) { vs::Quiet q; fail("find(" + std::to_string(o.a) + ") returned a node outside its set"); }
            vs::note("f%d ", r);
        } else {
            bool before;
            { vs::Quiet q; before = raw_connected(o.a, o.b); }
            bool r = st->ds.sameSet(o.a, o.b);
            bool after;
            { vs::Quiet q; after = raw_connected(o.a, o.b); }
            // connectivity only grows: 'true' must hold at the end, 'false' must have held at the beginning
            if (r && !after) { vs::Quiet q; fail("sameSet answered true although the nodes were never in one set during the call"); }
            if (!r && before) { vs::Quiet q; fail("sameSet answered false although the nodes were in one set during the whole call"); }
            vs::note("s%d ", (int)r);
        }
    }
}
extern "C" int vs_check(std::string& obs) {
    // final partition == closure of requested unions
    int cls[8];
    for (int i = 0; i < UF_NODES; i++) cls[i] = i;
    std::vector<std::vector<Op>> all = st->sc.th;
    all.push_back(st->sc.base);
    for (auto& t : all)
        for (auto& o : t)
            if (o.kind == 0) {
                int ca = cls[o.a], cb = cls[o.b];
                for (int i = 0; i < UF_NODES; i++) if (cls[i] == cb) cls[i] = ca;
            }
    obs = "roots=";
    for (int i = 0; i < UF_NODES; i++) obs += std::to_string(raw_root(i));
    if (st->bad) { obs += " VIOLATION: " + st->why; return 1; }
    for (int a = 0; a < UF_NODES; a++)
        for (int b = 0; b < UF_NODES; b++) {
            bool want = cls[a] == cls[b];
            bool got = raw_connected(a, b);
            bool api = st->ds.sameSet(a, b);
            if (want != got || api != want) { obs += " VIOLATION: final partition differs from the closure of the requested unions at (" + std::to_string(a) + "," + std::to_string(b) + ")"; return 1; }
        }
    return 0;
}
