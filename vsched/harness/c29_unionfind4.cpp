#define UF_NODES 4
#include "c29_unionfind.cpp"
