// C31: symbol/record interning is a bijection under concurrency — real ConcurrentFlyweight (explicit lanes,
// tiny initial capacity, colliding hash), SymbolTableImpl and SpecializedRecordTable under vsched.
#include "vsched.h"
#include "souffle/datastructure/ConcurrentFlyweight.h"
#include "souffle/datastructure/SymbolTableImpl.h"
#include "souffle/datastructure/RecordTableImpl.h"
#include <map>
#include <set>
#include <string>
#include <vector>

using namespace souffle;

namespace {
struct CollidingHash {
    int mode = 0;   // 0: everything in one bucket, 1: identity
    std::size_t operator()(const int& k) const { return mode ? (std::size_t)k : 0; }
};
using FW = ConcurrentFlyweight<ConcurrentLanes, int, CollidingHash>;

struct Scenario {
    int kind;        // 0 flyweight, 1 symbol table, 2 record table
    int lanes;       // number of lanes (kind 0); threads map to lane tid % lanes
    int cap;         // initial capacity (kind 0)
    int hashmode;
    std::vector<int> pre;                  // keys interned before the threads start
    std::vector<std::vector<int>> th;      // per thread: keys to intern
    std::string name;
};
std::vector<Scenario> scenarios;
std::string descbuf;

struct Res { int key; long idx; bool inserted; };

struct State {
    Scenario sc;
    FW* fw = nullptr;
    SymbolTableImpl* sym = nullptr;
    SpecializedRecordTable<0, 1, 2>* rec = nullptr;
    std::vector<std::vector<Res>> results;
    std::vector<Res> pre;
};
State* st;

std::string symOf(int k) { return "s" + std::to_string(k); }

void build() {
    if (!scenarios.empty()) return;
    std::vector<int> al = {10, 20, 30};
    std::vector<std::vector<int>> one, two;
    for (int a : al) one.push_back({a});
    for (int a : al)
        for (int b : al) two.push_back({a, b});
    auto pairs = [&](const std::vector<std::vector<int>>& L, const std::vector<std::vector<int>>& R, bool sym) {
        std::vector<std::vector<std::vector<int>>> out;
        for (size_t i = 0; i < L.size(); i++)
            for (size_t j = (sym ? i : 0); j < R.size(); j++) out.push_back({L[i], R[j]});
        return out;
    };
    // flyweight: lanes x capacity x hash x pre x op lists
    for (int lanes : {1, 2})
        for (int cap : {1, 2})
            for (int hm : {0, 1})
                for (int pre : {0, 1}) {
                    std::vector<int> p = pre ? std::vector<int>{20} : std::vector<int>{};
                    std::string nm = "fw lanes" + std::to_string(lanes) + " cap" + std::to_string(cap) + " hash" + std::to_string(hm) + " pre" + std::to_string(pre);
                    for (auto& t : pairs(one, one, true)) scenarios.push_back({0, lanes, cap, hm, p, t, nm + " 2x1"});
                    for (auto& t : pairs(one, two, false)) scenarios.push_back({0, lanes, cap, hm, p, t, nm + " 1+2"});
                    for (auto& t : pairs(two, two, true)) scenarios.push_back({0, lanes, cap, hm, p, t, nm + " 2x2"});
                }
    for (int cap : {1, 2})
        for (size_t i = 0; i < al.size(); i++)
            for (size_t j = i; j < al.size(); j++)
                for (size_t k = j; k < al.size(); k++)
                    scenarios.push_back({0, 2, cap, 0, {}, {{al[i]}, {al[j]}, {al[k]}}, "fw lanes2 cap" + std::to_string(cap) + " hash0 pre0 3x1"});
    // symbol table (real hash, lanes = max threads, lane = omp thread id) and record table
    for (int kind : {1, 2}) {
        std::string nm = kind == 1 ? "sym" : "rec";
        for (auto& t : pairs(one, one, true)) scenarios.push_back({kind, 0, 0, 0, {}, t, nm + " 2x1"});
        for (auto& t : pairs(one, two, false)) scenarios.push_back({kind, 0, 0, 0, {}, t, nm + " 1+2"});
        for (auto& t : pairs(two, two, true)) scenarios.push_back({kind, 0, 0, 0, {20}, t, nm + " 2x2"});
    }
}

Res intern(int tid, int k) {
    if (st->sc.kind == 0) {
        auto r = st->fw->findOrInsert((std::size_t)(tid % st->sc.lanes), k);
        return {k, (long)r.first, r.second};
    } else if (st->sc.kind == 1) {
        std::string s = symOf(k);
        bool had = st->sym->weakContains(s);
        (void)had;
        RamDomain i = st->sym->encode(s);
        return {k, (long)i, false};
    } else {
        RamDomain t[2] = {k, k + 1};
        RamDomain i = (k == 30) ? st->rec->pack(t, 1) : st->rec->pack(t, 2);   // key 30 is a unary record
        return {k, (long)i, false};
    }
}
}  // namespace

extern "C" int vs_nscenarios() { build(); return (int)scenarios.size(); }
extern "C" const char* vs_describe(int s) {
    build();
    const Scenario& sc = scenarios[s];
    descbuf = sc.name + " ins:";
    for (auto& t : sc.th) {
        descbuf += " [";
        for (int k : t) descbuf += std::to_string(k) + " ";
        descbuf += "]";
    }
    return descbuf.c_str();
}
extern "C" int vs_setup(int s) {
    build();
    st = new State();
    st->sc = scenarios[s];
    int nt = (int)st->sc.th.size();
    omp_set_num_threads(nt);
    if (st->sc.kind == 0) {
        CollidingHash h;
        h.mode = st->sc.hashmode;
        st->fw = new FW((std::size_t)st->sc.lanes, (std::size_t)st->sc.cap, false, h);
    } else if (st->sc.kind == 1) {
        st->sym = new SymbolTableImpl();
    } else {
        st->rec = new SpecializedRecordTable<0, 1, 2>((std::size_t)nt);
    }
    for (int k : st->sc.pre) st->pre.push_back(intern(0, k));
    st->results.resize(nt);
    return nt;
}
extern "C" void vs_thread(int tid) {
    for (int k : st->sc.th[tid]) {
        Res r = intern(tid, k);
        st->results[tid].push_back(r);
        vs::note("%d->%ld%s ", k, r.idx, r.inserted ? "+" : "");
    }
}

static bool fail(std::string& obs, const std::string& w) {
    obs += " VIOLATION: " + w;
    return true;
}

extern "C" int vs_check(std::string& obs) {
    obs = "";
    std::map<int, long> idx;
    std::map<int, int> inserted;
    std::set<int> prekeys(st->sc.pre.begin(), st->sc.pre.end());
    std::vector<Res> all = st->pre;
    for (auto& r : st->results) all.insert(all.end(), r.begin(), r.end());
    for (auto& r : all) {
        if (idx.count(r.key) && idx[r.key] != r.idx) return fail(obs, "key " + std::to_string(r.key) + " got two different references " + std::to_string(idx[r.key]) + " and " + std::to_string(r.idx));
        idx[r.key] = r.idx;
        if (r.inserted) inserted[r.key]++;
    }
    std::map<long, int> rev;
    for (auto& kv : idx) {
        bool unary = (st->sc.kind == 2 && kv.first == 30);
        // records of different arity live in different maps and may share reference values
        long tag = unary ? -kv.second - 1000 : kv.second;
        if (rev.count(tag)) return fail(obs, "keys " + std::to_string(rev[tag]) + " and " + std::to_string(kv.first) + " share reference " + std::to_string(kv.second));
        rev[tag] = kv.first;
    }
    if (st->sc.kind == 0) {
        for (auto& kv : idx) {
            if (inserted[kv.first] != 1) return fail(obs, "key " + std::to_string(kv.first) + " reported inserted " + std::to_string(inserted[kv.first]) + " times");
            if (st->fw->fetch(0, (std::size_t)kv.second) != kv.first) return fail(obs, "fetch(" + std::to_string(kv.second) + ") does not return the key");
            if (!st->fw->weakContains(0, kv.first)) return fail(obs, "weakContains misses an interned key");
            auto again = st->fw->findOrInsert(0, kv.first);
            if ((long)again.first != kv.second || again.second) return fail(obs, "a second findOrInsert of key " + std::to_string(kv.first) + " does not find it");
        }
        std::multiset<int> seen;
        for (auto it = st->fw->begin(0); it != st->fw->end(); ++it) seen.insert(it->first);
        std::multiset<int> want;
        for (auto& kv : idx) want.insert(kv.first);
        if (seen != want) return fail(obs, "iteration does not list every interned key exactly once");
    } else if (st->sc.kind == 1) {
        for (auto& kv : idx) {
            if (st->sym->decode((RamDomain)kv.second) != symOf(kv.first)) return fail(obs, "decode(" + std::to_string(kv.second) + ") does not return the symbol");
            if (st->sym->encode(symOf(kv.first)) != (RamDomain)kv.second) return fail(obs, "re-encoding gives a different reference");
            if (!st->sym->weakContains(symOf(kv.first))) return fail(obs, "weakContains misses an interned symbol");
        }
        std::multiset<std::string> seen, want;
        for (auto it = st->sym->begin(); it != st->sym->end(); ++it) seen.insert((*it).first);
        for (auto& kv : idx) want.insert(symOf(kv.first));
        if (seen != want) return fail(obs, "iteration does not list every interned symbol exactly once");
    } else {
        for (auto& kv : idx) {
            bool unary = kv.first == 30;
            if (kv.second == 0) return fail(obs, "pack returned the nil reference for a real record");
            const RamDomain* t = st->rec->unpack((RamDomain)kv.second, unary ? 1 : 2);
            if (t[0] != kv.first || (!unary && t[1] != kv.first + 1)) return fail(obs, "unpack does not return the packed record");
            RamDomain tt[2] = {kv.first, kv.first + 1};
            if (st->rec->pack(tt, unary ? 1 : 2) != (RamDomain)kv.second) return fail(obs, "re-packing gives a different reference");
        }
    }
    return 0;
}
