#define BRIE_DIM 1
#include "c27_brie.cpp"
