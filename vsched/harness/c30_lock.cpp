// C30: the optimistic read-write lock protocol is safe — real OptimisticReadWriteLock under vsched.
#include "vsched.h"
#include "souffle/utility/ParallelUtil.h"
#include <string>
#include <vector>

using souffle::OptimisticReadWriteLock;

namespace {
enum Prog { R, W, TW, U, WA, UA, RR, NPROG };
const char* pname[] = {"read", "write", "trywrite", "upgrade", "write-abort", "upgrade-abort", "read-read"};

struct State {
    OptimisticReadWriteLock lock;
    // ghost state: volatile so that every access is a scheduling point and nothing is cached in registers
    volatile int d1 = 0, d2 = 0;
    volatile int writers = 0;
    volatile int commits = 0;
    std::vector<std::vector<int>> progs;   // per thread: list of programs
    int bad = 0;
    std::string why;
};
State* st;
std::vector<std::vector<std::vector<int>>> scenarios;
std::string descbuf;

// reads the version word without a scheduling point (not instrumented)
__attribute__((no_sanitize_thread, noinline)) int raw_version(OptimisticReadWriteLock& l) {
    return *reinterpret_cast<volatile int*>(&l.version);
}

void fail(const char* w) {
    if (!st->bad) { st->bad = 1; st->why = w; }
}

void write_body() {
    st->writers = st->writers + 1;
    if (st->writers != 1) fail("two writers hold the lock");
    int a = st->d1;
    st->d1 = a + 1;
    int b = st->d2;
    st->d2 = b + 1;
    if (st->writers != 1) fail("two writers hold the lock");
    st->commits = st->commits + 1;
    st->writers = st->writers - 1;
}

void run_prog(int p) {
    OptimisticReadWriteLock& l = st->lock;
    switch (p) {
        case R: {
            auto lease = l.start_read();
            int c0 = st->commits;
            int a = st->d1;
            int b = st->d2;
            int c1 = st->commits;
            bool ok = l.end_read(lease);
            if (ok && a != b) fail("validated read saw torn data");
            if (ok && c0 != c1) fail("validated read overlapped a committed write");
            vs::note("R%d ", ok ? a : -1);
            break;
        }
        case RR: {
            // two validations of one lease: the second may only succeed if the first did
            auto lease = l.start_read();
            int a = st->d1;
            bool ok1 = l.validate(lease);
            int b = st->d2;
            bool ok2 = l.end_read(lease);
            // (ok1 false and ok2 true is legitimate: an aborted write in between restores the version)
            if (ok2 && a != b) fail("validated read saw torn data");
            vs::note("RR%d%d ", ok1, ok2);
            break;
        }
        case W: {
            l.start_write();
            write_body();
            l.end_write();
            vs::note("W ");
            break;
        }
        case TW: {
            if (l.try_start_write()) {
                write_body();
                l.end_write();
                vs::note("TW+ ");
            } else
                vs::note("TW- ");
            break;
        }
        case U: {
            auto lease = l.start_read();
            int a = st->d1;
            int b = st->d2;
            if (l.try_upgrade_to_write(lease)) {
                if (a != b) fail("upgrade succeeded although the read phase saw torn data");
                if (st->d1 != a || st->d2 != b) fail("upgrade succeeded although data changed since the lease");
                write_body();
                l.end_write();
                vs::note("U+ ");
            } else
                vs::note("U- ");
            break;
        }
        case WA: {
            l.start_write();
            int vd = raw_version(l);
            st->writers = st->writers + 1;
            if (st->writers != 1) fail("two writers hold the lock");
            st->writers = st->writers - 1;
            l.abort_write();
            int va = raw_version(l);   // no scheduling point between the abort and this read
            if (!(vd & 1)) fail("version even while a writer holds the lock");
            if (va != vd - 1) fail("abort_write did not restore the version readers hold");
            vs::note("WA ");
            break;
        }
        case UA: {
            int c0 = st->commits;
            auto lease = l.start_read();
            if (l.try_upgrade_to_write(lease)) {
                int vd = raw_version(l);
                st->writers = st->writers + 1;
                if (st->writers != 1) fail("two writers hold the lock");
                st->writers = st->writers - 1;
                l.abort_write();
                int va = raw_version(l);
                if (va != vd - 1 || va != lease.version) fail("aborted upgrade did not restore the lease's version");
                (void)c0;
                vs::note("UA+ ");
            } else
                vs::note("UA- ");
            break;
        }
    }
}

void build() {
    if (!scenarios.empty()) return;
    // all multisets of 2 clients with one program each; all multisets of 3 clients; 2 clients x 2 programs
    for (int a = 0; a < NPROG; a++)
        for (int b = a; b < NPROG; b++) scenarios.push_back({{a}, {b}});
    for (int a = 0; a < NPROG; a++)
        for (int b = a; b < NPROG; b++)
            for (int c = b; c < NPROG; c++) scenarios.push_back({{a}, {b}, {c}});
    for (int a = 0; a < NPROG; a++)
        for (int a2 = 0; a2 < NPROG; a2++)
            for (int b = 0; b < NPROG; b++)
                for (int b2 = 0; b2 < NPROG; b2++) {
                    if (a * NPROG + a2 > b * NPROG + b2) continue;
                    scenarios.push_back({{a, a2}, {b, b2}});
                }
}
}  // namespace

extern "C" int vs_nscenarios() {
    build();
    return (int)scenarios.size();
}
extern "C" const char* vs_describe(int s) {
    build();
    descbuf.clear();
    for (auto& t : scenarios[s]) {
        descbuf += "[";
        for (int p : t) descbuf += std::string(pname[p]) + " ";
        descbuf += "] ";
    }
    return descbuf.c_str();
}
extern "C" int vs_setup(int s) {
    build();
    st = new State();
    st->progs = scenarios[s];
    return (int)st->progs.size();
}
extern "C" void vs_thread(int tid) {
    for (int p : st->progs[tid]) run_prog(p);
}
extern "C" int vs_check(std::string& obs) {
    obs = "d=" + std::to_string(st->d1) + "," + std::to_string(st->d2) + " commits=" + std::to_string(st->commits) +
          " version=" + std::to_string(st->lock.version.load());
    if (st->bad) { obs += " VIOLATION: " + st->why; return 1; }
    if (st->d1 != st->d2 || st->d1 != st->commits) { obs += " VIOLATION: lost or torn update"; return 1; }
    if (st->lock.version.load() & 1) { obs += " VIOLATION: lock left in write state"; return 1; }
    if (st->lock.version.load() != 2 * st->commits) { obs += " VIOLATION: version does not count committed writes"; return 1; }
    return 0;
}
