// shared by the sequential and the concurrent EquivalenceRelation harnesses: closure model + query battery
#pragma once
#include "souffle/datastructure/EquivalenceRelation.h"
#include "souffle/utility/span.h"
#include <functional>
#include <map>
#include <set>
#include <string>
#include <vector>
using namespace souffle;
namespace {
using Tup = Tuple<RamDomain, 2>;
using Rel = EquivalenceRelation<Tup>;
const RamDomain EL[] = {1, 2, 3, 2147483647, (RamDomain)(-2147483647 - 1)};
const int NEL = 5;

using Pairs = std::set<std::pair<RamDomain, RamDomain>>;

Pairs closure(const Pairs& in) {
    std::map<RamDomain, RamDomain> rep;
    std::function<RamDomain(RamDomain)> find = [&](RamDomain x) { while (rep[x] != x) x = rep[x]; return x; };
    for (auto& p : in) { if (!rep.count(p.first)) rep[p.first] = p.first; if (!rep.count(p.second)) rep[p.second] = p.second; }
    for (auto& p : in) { RamDomain a = find(p.first), b = find(p.second); if (a != b) rep[a] = b; }
    Pairs out;
    for (auto& a : rep)
        for (auto& b : rep)
            if (find(a.first) == find(b.first)) out.insert({a.first, b.first});
    return out;
}
std::set<RamDomain> elems(const Pairs& p) {
    std::set<RamDomain> s;
    for (auto& x : p) { s.insert(x.first); s.insert(x.second); }
    return s;
}

const std::vector<std::vector<std::pair<int, int>>> OTHERS = {{{0, 1}}, {{1, 2}, {3, 3}}, {{4, 0}, {2, 2}}, {}};

bool query_battery(Rel& r, const Pairs& model, std::string& why) {
    std::size_t want = model.size();
    if (r.size() != want) { why = "size() = " + std::to_string(r.size()) + " but the closure has " + std::to_string(want) + " pairs"; return false; }
    Pairs got;
    std::size_t n = 0;
    for (auto it = r.begin(); it != r.end(); ++it) { got.insert({(*it)[0], (*it)[1]}); n++; }
    if (got != model || n != want) { why = "full iteration does not list exactly the closure (got " + std::to_string(n) + " tuples, " + std::to_string(got.size()) + " distinct)"; return false; }
    for (int i = 0; i < NEL; i++)
        for (int j = 0; j < NEL; j++) {
            bool has = model.count({EL[i], EL[j]}) > 0;
            if (r.contains(EL[i], EL[j]) != has) { why = "contains(" + std::to_string(EL[i]) + "," + std::to_string(EL[j]) + ") wrong"; return false; }
        }
    auto el = elems(model);
    for (int i = 0; i < NEL; i++) {
        if (!el.count(EL[i])) continue;     // per-element iteration is only defined for elements of the relation
        Tup t{EL[i], 0};
        Pairs g1;
        std::size_t c1 = 0;
        for (auto x : r.template getBoundaries<1>(t)) { g1.insert({x[0], x[1]}); c1++; }
        Pairs w1;
        for (auto& p : model) if (p.first == EL[i]) w1.insert(p);
        if (g1 != w1 || c1 != w1.size()) { why = "getBoundaries<1>(" + std::to_string(EL[i]) + ") wrong"; return false; }
        for (int j = 0; j < NEL; j++) {
            if (!model.count({EL[i], EL[j]})) continue;
            Tup t2{EL[i], EL[j]};
            std::size_t c2 = 0;
            bool okv = true;
            for (auto x : r.template getBoundaries<2>(t2)) { if (x[0] != EL[i] || x[1] != EL[j]) okv = false; c2++; }
            if (c2 != 1 || !okv) { why = "getBoundaries<2>(" + std::to_string(EL[i]) + "," + std::to_string(EL[j]) + ") wrong"; return false; }
        }
    }
    for (std::size_t chunks : {1u, 2u, 3u, 100u}) {
        Pairs g;
        std::size_t c = 0;
        for (auto& rg : r.partition(chunks))
            for (auto x : rg) { g.insert({x[0], x[1]}); c++; }
        if (g != model || c != want) { why = "partition(" + std::to_string(chunks) + ") does not list every pair exactly once (" + std::to_string(c) + " tuples)"; return false; }
    }
    return true;
}

}  // namespace
