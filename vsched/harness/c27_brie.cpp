// C27: Brie tries under concurrent insertion — real Trie<DIM> under vsched.
#include "vsched.h"
#include "souffle/datastructure/Brie.h"
#include <algorithm>
#include <map>
#include <set>
#include <string>
#include <vector>

using namespace souffle;

#ifndef BRIE_DIM
#define BRIE_DIM 2
#endif

namespace {
using T = Trie<BRIE_DIM>;
using Entry = typename T::entry_type;

struct Scenario {
    std::vector<Entry> base;
    std::vector<std::vector<Entry>> th;
    std::string name;
};
std::vector<Scenario> scenarios;
std::string descbuf;

struct State {
    T trie;
    Scenario sc;
    std::vector<std::vector<int>> results;
};
State* st;

std::vector<Entry> alphabet() {
    std::vector<Entry> a;
#if BRIE_DIM == 1
    for (RamDomain x : {0, 1, 63, 64, 65536, 2147483647}) a.push_back(Entry{x});
#elif BRIE_DIM == 2
    a = {Entry{0, 0}, Entry{0, 64}, Entry{64, 0}, Entry{64, 1}, Entry{65536, 0}, Entry{2147483647, 63}};
#elif BRIE_DIM == 3
    a = {Entry{0, 0, 0}, Entry{0, 0, 64}, Entry{0, 64, 0}, Entry{64, 0, 1}, Entry{65536, 0, 0}};
#else
    a = {Entry{0, 0, 0, 0}, Entry{0, 0, 0, 64}, Entry{0, 64, 0, 0}, Entry{65536, 0, 1, 0}};
#endif
    return a;
}

std::string show(const Entry& e) {
    std::string s = "(";
    for (size_t i = 0; i < e.size(); i++) s += (i ? "," : "") + std::to_string(e[i]);
    return s + ")";
}

void build() {
    if (!scenarios.empty()) return;
    auto al = alphabet();
    std::vector<std::pair<std::string, std::vector<Entry>>> bases = {{"empty", {}}, {"one", {al[0]}}, {"three", {al[0], al[2], al[4 % al.size()]}}};
    for (auto& b : bases) {
        for (size_t i = 0; i < al.size(); i++)
            for (size_t j = i; j < al.size(); j++) scenarios.push_back({b.second, {{al[i]}, {al[j]}}, b.first + " 2x1"});
    }
    for (auto& b : bases) {
        std::vector<std::vector<Entry>> lists;
        for (auto& x : al)
            for (auto& y : al) lists.push_back({x, y});
        for (size_t i = 0; i < lists.size(); i++)
            for (size_t j = i; j < lists.size(); j++) scenarios.push_back({b.second, {lists[i], lists[j]}, b.first + " 2x2"});
    }
    for (auto& b : bases) {
        for (size_t i = 0; i < al.size(); i++)
            for (size_t j = i; j < al.size(); j++)
                for (size_t k = j; k < al.size(); k++) scenarios.push_back({b.second, {{al[i]}, {al[j]}, {al[k]}}, b.first + " 3x1"});
    }
}
}  // namespace

extern "C" int vs_nscenarios() { build(); return (int)scenarios.size(); }
extern "C" const char* vs_describe(int s) {
    build();
    const Scenario& sc = scenarios[s];
    descbuf = sc.name + " ins:";
    for (auto& t : sc.th) {
        descbuf += " [";
        for (auto& k : t) descbuf += show(k) + " ";
        descbuf += "]";
    }
    return descbuf.c_str();
}
extern "C" int vs_setup(int s) {
    build();
    st = new State();
    st->sc = scenarios[s];
    for (auto& k : st->sc.base) st->trie.insert(k);
    st->results.resize(st->sc.th.size());
    return (int)st->sc.th.size();
}
extern "C" void vs_thread(int tid) {
    typename T::op_context ctxt;
    for (auto& k : st->sc.th[tid]) {
        bool r = st->trie.insert(k, ctxt);
        st->results[tid].push_back(r);
        vs::note("%d ", (int)r);
    }
}

static bool fail(std::string& obs, const std::string& w) {
    obs += " VIOLATION: " + w;
    return true;
}

extern "C" int vs_check(std::string& obs) {
    T& t = st->trie;
    std::set<Entry> expect(st->sc.base.begin(), st->sc.base.end());
    std::set<Entry> baseset = expect;
    for (auto& th : st->sc.th)
        for (auto& k : th) expect.insert(k);
    std::vector<Entry> got;
    for (auto it = t.begin(); it != t.end(); ++it) got.push_back(*it);
    obs = "items=";
    for (auto& k : got) obs += show(k);
    std::vector<Entry> want(expect.begin(), expect.end());
    // iteration order of the trie is lexicographic on the unsigned interpretation; compare as sets first
    std::set<Entry> gotset(got.begin(), got.end());
    if (gotset.size() != got.size()) return fail(obs, "iteration lists a tuple twice");
    if (gotset != expect) return fail(obs, "iteration differs from the union of inserted tuples");
    if (t.size() != expect.size()) return fail(obs, "size() = " + std::to_string(t.size()) + " but " + std::to_string(expect.size()) + " tuples");
    if (t.empty() != expect.empty()) return fail(obs, "empty() inconsistent");
    std::map<Entry, int> trues, attempts;
    for (size_t i = 0; i < st->sc.th.size(); i++)
        for (size_t j = 0; j < st->sc.th[i].size(); j++) {
            attempts[st->sc.th[i][j]]++;
            if (st->results[i][j]) trues[st->sc.th[i][j]]++;
        }
    for (auto& a : attempts) {
        int wanttrue = baseset.count(a.first) ? 0 : 1;
        if (trues[a.first] != wanttrue) return fail(obs, "tuple " + show(a.first) + " reported success " + std::to_string(trues[a.first]) + " times instead of " + std::to_string(wanttrue));
    }
    for (auto& k : alphabet()) {
        bool has = expect.count(k) > 0;
        if (t.contains(k) != has) return fail(obs, "contains" + show(k) + " wrong");
        auto f = t.find(k);
        if ((f != t.end()) != has) return fail(obs, "find" + show(k) + " wrong");
        // prefix range queries of every length
        {
            size_t n = 0;
            for (auto it : t.template getBoundaries<0>(k)) { (void)it; n++; }
            if (n != expect.size()) return fail(obs, "getBoundaries<0> wrong");
        }
        {
            size_t n = 0, w = 0;
            for (auto it : t.template getBoundaries<1>(k)) { if (it[0] != k[0]) return fail(obs, "getBoundaries<1> yields foreign tuple"); n++; }
            for (auto& e : expect) if (e[0] == k[0]) w++;
            if (n != w) return fail(obs, "getBoundaries<1>" + show(k) + " = " + std::to_string(n) + " expected " + std::to_string(w));
        }
#if BRIE_DIM >= 2
        {
            size_t n = 0, w = 0;
            for (auto it : t.template getBoundaries<2>(k)) { if (it[0] != k[0] || it[1] != k[1]) return fail(obs, "getBoundaries<2> yields foreign tuple"); n++; }
            for (auto& e : expect) if (e[0] == k[0] && e[1] == k[1]) w++;
            if (n != w) return fail(obs, "getBoundaries<2>" + show(k) + " wrong");
        }
#endif
        {
            size_t n = 0;
            for (auto it : t.template getBoundaries<BRIE_DIM>(k)) { (void)it; n++; }
            if (n != (has ? 1u : 0u)) return fail(obs, "getBoundaries<full> wrong");
        }
    }
    for (unsigned n : {1u, 2u, 3u, 500u}) {
        std::set<Entry> all;
        size_t cnt = 0;
        for (auto& r : t.partition(n))
            for (auto it = r.begin(); it != r.end(); ++it) { all.insert(*it); cnt++; }
        if (all != expect || cnt != expect.size()) return fail(obs, "partition(" + std::to_string(n) + ") does not cover every tuple exactly once");
    }
    return 0;
}
