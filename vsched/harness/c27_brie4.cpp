#define BRIE_DIM 4
#include "c27_brie.cpp"
