// C28 (sequential half): equivalence-relation storage is the closure of inserted pairs — explicit-state search over
// histories of insert / insertAll / extendAndInsert / query batteries on the real EquivalenceRelation.
#include "seqmc.h"
#include "eqrel_common.h"
#include <sstream>
using namespace seqmc;

namespace {
std::string dump(Rel& r) {
    std::ostringstream os;
    auto& ds = r.sds.ds;
    std::size_t n = ds.size();
    for (std::size_t i = 0; i < n; i++) {
        block_t b = ds.get(i).load();
        os << r.sds.toSparse(i) << ":" << DisjointSet::b2p(b) << "/" << (int)DisjointSet::b2r(b) << " ";
    }
    os << "stale=" << r.statesMapStale.load() << " cache:";
    for (auto& p : r.equivalencePartition) {
        os << p.first << "[";
        for (std::size_t i = 0; i < p.second->size(); i++) os << p.second->get(i) << ",";
        os << "]";
    }
    return os.str();
}
}  // namespace

namespace seqmc {
int nvariants() { return 2; }
const char* variant_name(int v) { return v == 0 ? "eqrel-5-elements" : "eqrel-3-elements"; }
std::vector<Op> alphabet(int variant) {
    std::vector<Op> a;
    int n = variant == 0 ? NEL : 3;
    for (int i = 0; i < n; i++)
        for (int j = 0; j < n; j++) a.push_back({0, i, j});
    for (int k = 0; k < (int)OTHERS.size(); k++) { a.push_back({1, k, 0}); a.push_back({2, k, 0}); }
    a.push_back({3, 0, 0});   // query battery as an operation (rebuilds the partition cache)
    return a;
}
std::string opname(const Op& o) {
    if (o.kind == 0) return "ins(" + std::to_string(EL[o.a]) + "," + std::to_string(EL[o.b]) + ")";
    if (o.kind == 1) return "insertAll(O" + std::to_string(o.a) + ")";
    if (o.kind == 2) return "extendAndInsert(O" + std::to_string(o.a) + ")";
    return "queries";
}
bool run(int, const Hist& h, std::string& canon, std::string& why) {
    Rel r;
    Pairs model;   // closed
    for (auto& o : h) {
        if (o.kind == 0) {
            bool wasnew = !model.count({EL[o.a], EL[o.b]});
            bool ret = r.insert(EL[o.a], EL[o.b]);
            Pairs m = model;
            m.insert({EL[o.a], EL[o.b]});
            model = closure(m);
            if (ret != wasnew) { why = opname(o) + " returned " + std::to_string(ret) + " but the pair was " + (wasnew ? "new" : "present"); return false; }
        } else if (o.kind == 1 || o.kind == 2) {
            Rel other;
            Pairs om;
            for (auto& p : OTHERS[o.a]) { other.insert(EL[p.first], EL[p.second]); om.insert({EL[p.first], EL[p.second]}); }
            om = closure(om);
            if (o.kind == 1) {
                r.insertAll(other);
                Pairs m = model;
                m.insert(om.begin(), om.end());
                model = closure(m);
            } else {
                // documented contract: this gains every class of other that shares an element with this; other gains this
                auto mine = elems(model);
                Pairs m = model;
                for (auto& p : om) {
                    bool touches = false;
                    for (auto& q : om) if (q.first == p.first && mine.count(q.second)) touches = true;
                    if (touches) m.insert(p);
                }
                Pairs newthis = closure(m);
                Pairs mo = om;
                mo.insert(model.begin(), model.end());
                Pairs newother = closure(mo);
                r.extendAndInsert(other);
                model = newthis;
                std::string w2;
                if (!query_battery(other, newother, w2)) { why = "after " + opname(o) + " the OTHER relation: " + w2; return false; }
            }
        } else {
            if (!query_battery(r, model, why)) { why = "in history position (queries): " + why; return false; }
        }
    }
    canon = dump(r);
    return query_battery(r, model, why);
}
}  // namespace seqmc

int main(int argc, char** argv) { return seqmc::main_(argc, argv); }
