// C03 / C10 / C22 (schedule dimension): a generated (compiled-mode) souffle program under vsched.  The OpenMP runtime entry
// points the generated code uses are implemented here on top of virtual threads, so that every assignment and order of
// loop chunks and every interleaving (up to the preemption bound) of the accesses inside the parallel regions of the
// generated code and of the relation data structures is explored.  The translation unit includes the generated C++
// (3-key B-tree nodes, so that tiny relations already split into several chunks) and a generated header with the facts
// and the oracle data.
#include "vsched.h"
#include <atomic>
#include <pthread.h>
#include <set>
#include <string>
#include <vector>
#include "prog_gen.cpp"
#include "prog_expected.h"   // PROG_NAME, FACTS[], OUTPUT relations, oracle kind, EXPECTED

namespace {
std::atomic<long> g_region{0};          // generation of the current parallel region
void (*volatile g_fn)(void*) = nullptr;
void* volatile g_data = nullptr;
std::atomic<int> g_done{0};
std::atomic<int> g_finished{0};
int g_nt = 2;
// work-sharing loop state
std::atomic<long> ws_next{0};
std::atomic<long> ws_ready{0};          // id of the loop whose state is initialised
std::atomic<long> ws_claim{0};          // id of the loop somebody is initialising / has initialised
long ws_end = 0, ws_incr = 1, ws_chunk = 1;
std::atomic<int> ws_arrived{0};
std::atomic<long> ws_barrier_gen{0};
thread_local long tl_loops = 0;          // loops this thread has entered (all threads enter the same loops)
thread_local long tl_singles = 0;
std::atomic<long> single_claim{0};

souffle::SouffleProgram* prog = nullptr;
int vs_current_scenario = 0;

void team_barrier() {
    long gen = ws_barrier_gen.load();
    if (ws_arrived.fetch_add(1) + 1 == g_nt) {
        ws_arrived.store(0);
        ws_barrier_gen.fetch_add(1);
    } else {
        while (ws_barrier_gen.load() == gen) {
        }
    }
}
}  // namespace

extern "C" {
#define DBG(...) do { if (getenv("GOMP_DEBUG")) { vs::Quiet q_; fprintf(stderr, __VA_ARGS__); } } while (0)
void GOMP_parallel(void (*fn)(void*), void* data, unsigned, unsigned) {
    DBG("T%d GOMP_parallel region->%ld\n", vs::self(), g_region.load() + 1);
    g_fn = fn;
    g_data = data;
    g_done.store(0);
    g_region.fetch_add(1);
    fn(data);
    while (g_done.load() != g_nt - 1) {
    }
}
bool GOMP_loop_nonmonotonic_dynamic_next(long* istart, long* iend) {
    long step = ws_chunk * ws_incr;
    long cur = ws_next.fetch_add(step);
    if (ws_incr > 0 ? cur >= ws_end : cur <= ws_end) return false;
    long e = cur + step;
    if (ws_incr > 0 ? e > ws_end : e < ws_end) e = ws_end;
    *istart = cur;
    *iend = e;
    return true;
}
bool GOMP_loop_nonmonotonic_dynamic_start(long start, long end, long incr, long chunk, long* istart, long* iend) {
    long me = ++tl_loops;
    DBG("T%d loop_start #%ld claim=%ld\n", vs::self(), me, ws_claim.load());
    long expect = me - 1;
    if (ws_claim.compare_exchange_strong(expect, me)) {
        ws_end = end; ws_incr = incr; ws_chunk = chunk < 1 ? 1 : chunk;
        ws_next.store(start);
        ws_ready.store(me);
    } else {
        while (ws_ready.load() < me) {
        }
    }
    return GOMP_loop_nonmonotonic_dynamic_next(istart, iend);
}
bool GOMP_loop_dynamic_start(long a, long b, long c, long d, long* e, long* f) { return GOMP_loop_nonmonotonic_dynamic_start(a, b, c, d, e, f); }
bool GOMP_loop_dynamic_next(long* e, long* f) { return GOMP_loop_nonmonotonic_dynamic_next(e, f); }
void GOMP_loop_end() { DBG("T%d loop_end\n", vs::self()); team_barrier(); DBG("T%d loop_end passed\n", vs::self()); }
void GOMP_loop_end_nowait() {}
void GOMP_barrier() { team_barrier(); }
// reductions that the compiler does not combine with atomic instructions are combined under the runtime's global lock
static pthread_mutex_t g_atomic_mx = PTHREAD_MUTEX_INITIALIZER;
void GOMP_atomic_start() { pthread_mutex_lock(&g_atomic_mx); }
void GOMP_atomic_end() { pthread_mutex_unlock(&g_atomic_mx); }
void GOMP_critical_start() { pthread_mutex_lock(&g_atomic_mx); }
void GOMP_critical_end() { pthread_mutex_unlock(&g_atomic_mx); }
// `single`: every thread meets the same sequence of single constructs; the first one to arrive at the k-th executes it
bool GOMP_single_start() {
    long me = ++tl_singles;
    long expect = me - 1;
    return single_claim.compare_exchange_strong(expect, me);
}
}

extern "C" int vs_nscenarios() { return N_SCENARIOS; }
extern "C" const char* vs_describe(int s) { return SCENARIO_DESC[s]; }
extern "C" int vs_setup(int s) {
    g_nt = N_THREADS;
    vs_current_scenario = s;
    omp_set_num_threads(g_nt);
    g_region.store(0); g_done.store(0); g_finished.store(0);
    ws_next.store(0); ws_ready.store(0); ws_claim.store(0); ws_arrived.store(0); ws_barrier_gen.store(0); single_claim.store(0);
    prog = souffle::ProgramFactory::newInstance(PROG_NAME);
    for (int i = 0; i < N_FACTS; i++) {
        if (FACTS[i].scenario != s) continue;
        souffle::Relation* r = prog->getRelation(FACTS[i].rel);
        if (!r) continue;
        souffle::tuple t(r);
        for (int v : FACTS[i].t) t << (souffle::RamDomain)v;
        r->insert(t);
    }
    return g_nt;
}
extern "C" void vs_thread(int tid) {
    tl_loops = 0;
    tl_singles = 0;
    if (tid == 0) {
        prog->run();
        g_finished.store(1);
        g_region.fetch_add(1);
        return;
    }
    long seen = 0;
    for (;;) {
        while (g_region.load() == seen) {
        }
        seen = g_region.load();
        DBG("T%d worker sees region %ld finished=%d\n", vs::self(), seen, g_finished.load());
        if (g_finished.load()) return;
        void (*fn)(void*) = g_fn;
        void* data = g_data;
        fn(data);
        g_done.fetch_add(1);
    }
}
extern "C" int vs_check(std::string& obs) {
    obs = "";
    for (int k = 0; k < N_OUTPUTS; k++) {
        souffle::Relation* r = prog->getRelation(OUTPUTS[k]);
        std::set<std::vector<int>> got;
        std::size_t n = 0;
        if (r) {
            for (auto& t : *r) {
                std::vector<int> v;
                for (std::size_t i = 0; i < r->getArity(); i++) {
                    char ty = r->getAttrType(i)[0];
                    if (ty == 'f') { souffle::RamFloat x; t >> x; v.push_back((int)souffle::ramBitCast<souffle::RamDomain>(x)); }
                    else if (ty == 'u') { souffle::RamUnsigned x; t >> x; v.push_back((int)x); }
                    else { souffle::RamDomain x; t >> x; v.push_back((int)x); }
                }
                got.insert(v);
                n++;
            }
        }
        obs += std::string(OUTPUTS[k]) + "=" + std::to_string(got.size()) + " ";
        std::string why;
        if (n != got.size()) { obs += " VIOLATION: duplicate tuple in " + std::string(OUTPUTS[k]); return 1; }
        if (!oracle(vs_current_scenario, k, got, why)) { obs += " VIOLATION: " + std::string(OUTPUTS[k]) + ": " + why; return 1; }
    }
    return 0;
}
