// C25 (and the concurrent half of C26): B-tree sets under concurrent insertion — real btree_set /
// btree_multiset / btree_delete_set with 3-key nodes under vsched.
#include "vsched.h"
#include "souffle/datastructure/BTree.h"
#include "souffle/datastructure/BTreeDelete.h"
#include <algorithm>
#include <map>
#include <set>
#include <string>
#include <vector>

using namespace souffle;

#ifndef TREE_KIND
#define TREE_KIND 0   // 0 btree_set, 1 btree_multiset, 2 btree_delete_set
#endif

namespace {
#if TREE_KIND == 0
using Tree = btree_set<int, detail::comparator<int>, std::allocator<int>, 16>;
constexpr bool IS_SET = true;
#elif TREE_KIND == 1
using Tree = btree_multiset<int, detail::comparator<int>, std::allocator<int>, 16>;
constexpr bool IS_SET = false;
#else
using Tree = btree_delete_set<int, detail::comparator<int>, std::allocator<int>, 16>;
constexpr bool IS_SET = true;
#endif

struct Scenario {
    std::vector<int> base;                   // inserted sequentially, in this order
    std::vector<std::vector<int>> th;        // per thread: keys to insert
    int hints;                               // 0: no hints, 1: one operation_hints object per thread
    std::string name;
};
std::vector<Scenario> scenarios;
std::string descbuf;

struct State {
    Tree tree;
    Scenario sc;
    std::vector<std::vector<int>> results;   // per thread: insert return values
};
State* st;

std::vector<int> seq(int from, int to, int step) {
    std::vector<int> v;
    for (int x = from; step > 0 ? x <= to : x >= to; x += step) v.push_back(x);
    return v;
}

// key alphabet derived from the base: below min, above max, a gap near the front, a gap near the middle, a
// gap near the back, a duplicate of the smallest key and of a middle key (a separator once the tree has levels)
std::vector<int> alphabet(const std::vector<int>& base) {
    std::vector<int> s = base;
    std::sort(s.begin(), s.end());
    s.erase(std::unique(s.begin(), s.end()), s.end());
    std::vector<int> a;
    if (s.empty()) return {10, 20, 30, 40};
    a.push_back(s.front() - 5);
    a.push_back(s.back() + 5);
    if (s.size() >= 2) a.push_back(s[0] + 5);
    if (s.size() >= 4) a.push_back(s[s.size() / 2] + 5);
    if (s.size() >= 3) a.push_back(s[s.size() - 2] + 5);
    a.push_back(s.front());
    if (s.size() >= 3) a.push_back(s[s.size() / 2]);
    std::sort(a.begin(), a.end());
    a.erase(std::unique(a.begin(), a.end()), a.end());
    return a;
}

void build() {
    if (!scenarios.empty()) return;
    std::vector<std::pair<std::string, std::vector<int>>> bases = {
            {"empty", {}},
            {"one", {10}},
            {"full-root-leaf", {10, 20, 30}},
            {"just-split", {10, 20, 30, 40}},
            {"full-right-leaf-left-has-room", {10, 20, 30, 40, 50}},
            {"two-full-leaves", {10, 20, 30, 40, 50, 5, 7}},
            {"three-levels", seq(10, 130, 10)},
            {"three-levels-desc", seq(130, 10, -10)},
    };
    for (auto& b : bases) {
        std::vector<int> al = alphabet(b.second);
        for (int hints = 0; hints < 2; hints++) {
            // group A: 2 threads x 1 insert (unordered pairs, including the same key twice)
            for (size_t i = 0; i < al.size(); i++)
                for (size_t j = i; j < al.size(); j++)
                    scenarios.push_back({b.second, {{al[i]}, {al[j]}}, hints, b.first + " 2x1"});
        }
    }
    for (auto& b : bases) {
        std::vector<int> al = alphabet(b.second);
        for (int hints = 0; hints < 2; hints++) {
            // group B: 2 threads x 2 inserts
            std::vector<std::vector<int>> lists;
            for (int x : al)
                for (int y : al) lists.push_back({x, y});
            for (size_t i = 0; i < lists.size(); i++)
                for (size_t j = i; j < lists.size(); j++)
                    scenarios.push_back({b.second, {lists[i], lists[j]}, hints, b.first + " 2x2"});
        }
    }
    {
        // group D ("reparent"): three levels with a full inner node; thread A splits a full leaf at the right end, thread R
        // first splits A's parent and then keeps appending at the right end (the leaf is re-parented more than once),
        // thread B inserts next to A's key
        std::vector<int> base = seq(10, 140, 10);
        for (int a : {125, 135, 145})
            for (int r1 : {115, 127, 137, 147})
                for (int q : {4, 8})
                    for (int b : {105, 123, 133}) {
                        std::vector<int> r = {r1};
                        for (int i = 1; i <= q; i++) r.push_back(140 + 10 * i);
                        scenarios.push_back({base, {{a}, r, {b}}, 0, "reparent-" + std::to_string(q) + " 1+n+1"});
                    }
    }
    for (auto& b : bases) {
        std::vector<int> al = alphabet(b.second);
        // group C: 3 threads x 1 insert
        for (size_t i = 0; i < al.size(); i++)
            for (size_t j = i; j < al.size(); j++)
                for (size_t k = j; k < al.size(); k++)
                    scenarios.push_back({b.second, {{al[i]}, {al[j]}, {al[k]}}, 1, b.first + " 3x1"});
    }
}
}  // namespace

extern "C" int vs_nscenarios() { build(); return (int)scenarios.size(); }
extern "C" const char* vs_describe(int s) {
    build();
    const Scenario& sc = scenarios[s];
    descbuf = sc.name + (sc.hints ? " hints" : " nohints") + " base=" + std::to_string(sc.base.size()) + " ins:";
    for (auto& t : sc.th) {
        descbuf += " [";
        for (int k : t) descbuf += std::to_string(k) + " ";
        descbuf += "]";
    }
    return descbuf.c_str();
}
extern "C" int vs_setup(int s) {
    build();
    st = new State();
    st->sc = scenarios[s];
    for (int k : st->sc.base) st->tree.insert(k);
    st->results.resize(st->sc.th.size());
    return (int)st->sc.th.size();
}
extern "C" void vs_thread(int tid) {
    typename Tree::operation_hints hints;
    for (int k : st->sc.th[tid]) {
        bool r = st->sc.hints ? st->tree.insert(k, hints) : st->tree.insert(k);
        st->results[tid].push_back(r);
        vs::note("%d:%d ", k, (int)r);
    }
}

static bool fail(std::string& obs, const std::string& w) {
    obs += " VIOLATION: " + w;
    return true;
}

extern "C" int vs_check(std::string& obs) {
    Tree& t = st->tree;
    // expected contents
    std::multiset<int> expect;
    std::set<int> baseset(st->sc.base.begin(), st->sc.base.end());
    if (IS_SET) {
        for (int k : baseset) expect.insert(k);
        for (auto& th : st->sc.th)
            for (int k : th)
                if (!expect.count(k)) expect.insert(k);
    } else {
        for (int k : st->sc.base) expect.insert(k);
        for (auto& th : st->sc.th)
            for (int k : th) expect.insert(k);
    }
    std::vector<int> got;
    for (auto it = t.begin(); it != t.end(); ++it) got.push_back(*it);
    obs = "items=";
    for (int k : got) obs += std::to_string(k) + ",";
    std::vector<int> want(expect.begin(), expect.end());
    if (got != want) return fail(obs, "iteration differs from the union of inserted keys");
    for (size_t i = 1; i < got.size(); i++)
        if (IS_SET ? !(got[i - 1] < got[i]) : !(got[i - 1] <= got[i])) return fail(obs, "iteration not ascending");
    if (t.size() != want.size()) return fail(obs, "size() = " + std::to_string(t.size()) + " but " + std::to_string(want.size()) + " keys");
    if (t.empty() != want.empty()) return fail(obs, "empty() inconsistent");
    // insert return values
    if (IS_SET) {
        std::map<int, int> trues, attempts;
        for (size_t i = 0; i < st->sc.th.size(); i++)
            for (size_t j = 0; j < st->sc.th[i].size(); j++) {
                attempts[st->sc.th[i][j]]++;
                if (st->results[i][j]) trues[st->sc.th[i][j]]++;
            }
        for (auto& a : attempts) {
            int wanttrue = baseset.count(a.first) ? 0 : 1;
            if (trues[a.first] != wanttrue)
                return fail(obs, "key " + std::to_string(a.first) + " reported success " + std::to_string(trues[a.first]) + " times instead of " + std::to_string(wanttrue));
        }
    } else {
        for (auto& r : st->results)
            for (bool b : r)
                if (!b) return fail(obs, "multiset insert reported failure");
    }
    if (!t.check()) return fail(obs, "structural check() failed");
    // queries against the model for every interesting key and its neighbours
    std::set<int> probes;
    for (int k : want) { probes.insert(k - 1); probes.insert(k); probes.insert(k + 1); }
    probes.insert(-1000); probes.insert(1000);
    for (int k : probes) {
        bool has = expect.count(k) > 0;
        if (t.contains(k) != has) return fail(obs, "contains(" + std::to_string(k) + ") wrong");
        auto f = t.find(k);
        if ((f != t.end()) != has || (has && *f != k)) return fail(obs, "find(" + std::to_string(k) + ") wrong");
        auto lb = t.lower_bound(k);
        auto elb = expect.lower_bound(k);
        if ((lb == t.end()) != (elb == expect.end()) || (lb != t.end() && *lb != *elb)) return fail(obs, "lower_bound(" + std::to_string(k) + ") wrong");
        auto ub = t.upper_bound(k);
        auto eub = expect.upper_bound(k);
        if ((ub == t.end()) != (eub == expect.end()) || (ub != t.end() && *ub != *eub)) return fail(obs, "upper_bound(" + std::to_string(k) + ") wrong");
    }
    for (int n = 1; n <= 5; n++) {
        auto chunks = t.getChunks(n);
        std::vector<int> all;
        for (auto& c : chunks)
            for (auto it = c.begin(); it != c.end(); ++it) all.push_back(*it);
        if (all != want) return fail(obs, "getChunks(" + std::to_string(n) + ") does not partition the iteration");
    }
    return 0;
}
