#define TREE_KIND 2
#include "c25_btree.cpp"
