#define TREE_KIND 1
#include "c25_btree.cpp"
