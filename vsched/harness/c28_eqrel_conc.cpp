// C28 (concurrent half): concurrent pair insertions into the real EquivalenceRelation under vsched, followed by the
// full query battery against the closure model.
#include "vsched.h"
#include "eqrel_common.h"

namespace {
struct Scenario {
    std::vector<std::pair<int, int>> base;
    std::vector<std::vector<std::pair<int, int>>> th;
    std::string name;
};
std::vector<Scenario> scenarios;
std::string descbuf;
struct State { Rel rel; Scenario sc; };
State* st;

void build() {
    if (!scenarios.empty()) return;
    // pairs over element indices 0..3 (1,2,3,2^31-1)
    std::vector<std::pair<int, int>> al = {{0, 1}, {1, 0}, {1, 2}, {2, 3}, {0, 0}, {3, 1}};
    std::vector<std::pair<std::string, std::vector<std::pair<int, int>>>> bases = {{"empty", {}}, {"one", {{0, 1}}}, {"two-classes", {{0, 1}, {2, 3}}}};
    for (auto& b : bases)
        for (size_t i = 0; i < al.size(); i++)
            for (size_t j = i; j < al.size(); j++) scenarios.push_back({b.second, {{al[i]}, {al[j]}}, b.first + " 2x1"});
    for (auto& b : bases) {
        std::vector<std::vector<std::pair<int, int>>> lists;
        for (auto& x : al)
            for (auto& y : al) lists.push_back({x, y});
        for (size_t i = 0; i < lists.size(); i++)
            for (size_t j = i; j < lists.size(); j++) scenarios.push_back({b.second, {lists[i], lists[j]}, b.first + " 2x2"});
    }
    for (auto& b : bases)
        for (size_t i = 0; i < al.size(); i++)
            for (size_t j = i; j < al.size(); j++)
                for (size_t k = j; k < al.size(); k++) scenarios.push_back({b.second, {{al[i]}, {al[j]}, {al[k]}}, b.first + " 3x1"});
}
}  // namespace

extern "C" int vs_nscenarios() { build(); return (int)scenarios.size(); }
extern "C" const char* vs_describe(int s) {
    build();
    const Scenario& sc = scenarios[s];
    descbuf = sc.name + " ins:";
    for (auto& t : sc.th) {
        descbuf += " [";
        for (auto& p : t) descbuf += "(" + std::to_string(EL[p.first]) + "," + std::to_string(EL[p.second]) + ") ";
        descbuf += "]";
    }
    return descbuf.c_str();
}
extern "C" int vs_setup(int s) {
    build();
    st = new State();
    st->sc = scenarios[s];
    for (auto& p : st->sc.base) st->rel.insert(EL[p.first], EL[p.second]);
    return (int)st->sc.th.size();
}
extern "C" void vs_thread(int tid) {
    for (auto& p : st->sc.th[tid]) {
        st->rel.insert(EL[p.first], EL[p.second]);
        vs::note("i ");
    }
}
extern "C" int vs_check(std::string& obs) {
    Pairs m;
    for (auto& p : st->sc.base) m.insert({EL[p.first], EL[p.second]});
    for (auto& t : st->sc.th)
        for (auto& p : t) m.insert({EL[p.first], EL[p.second]});
    Pairs model = closure(m);
    obs = "pairs=" + std::to_string(model.size());
    std::string why;
    if (!query_battery(st->rel, model, why)) { obs += " VIOLATION: " + why; return 1; }
    return 0;
}
