#define BRIE_DIM 3
#include "c27_brie.cpp"
