#!/bin/sh
# usage: build.sh <harness-name>   -> /verif/build/vs/<name>  (rebuilt from /repo's working tree headers)
set -e
V=$(cd "$(dirname "$0")/.." && pwd)
REPO=${VERIF_REPO:-/repo}
OUT=$V/build/vs
mkdir -p "$OUT"
N=$1; shift
if [ ! -f "$OUT/vsched.o" ] || [ "$V/vsched/vsched.cpp" -nt "$OUT/vsched.o" ] || [ "$V/vsched/vsched.h" -nt "$OUT/vsched.o" ]; then
  g++ -std=c++17 -O2 -g0 -c "$V/vsched/vsched.cpp" -o "$OUT/vsched.o.$$" && mv "$OUT/vsched.o.$$" "$OUT/vsched.o"
fi
g++ -std=c++17 -O1 -g0 -w -fsanitize=thread --param tsan-distinguish-volatile=1 -D_OPENMP=201511 -fno-access-control \
    -I"$REPO/src/include" -I"$V/vsched" "$@" -c "$V/vsched/harness/$N.cpp" -o "$OUT/$N.o"
g++ "$OUT/$N.o" "$OUT/vsched.o" -o "$OUT/$N" -lpthread
echo "$OUT/$N"
