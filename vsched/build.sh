#!/bin/sh
# usage: build.sh <harness-name>   -> /verif/build/vs/<name>  (rebuilt from /repo's working tree headers)
set -e
V=$(cd "$(dirname "$0")/.." && pwd)
REPO=${VERIF_REPO:-/repo}
OUT=$V/build/vs
mkdir -p "$OUT"
N=$1; shift
# the runtime object is keyed by the content of its sources (never trust timestamps of a restored build directory)
H=$(cat "$V/vsched/vsched.cpp" "$V/vsched/vsched.h" | sha1sum | cut -c1-12)
RT="$OUT/vsched-$H.o"
if [ ! -f "$RT" ]; then
  rm -f "$OUT"/vsched-*.o
  g++ -std=c++17 -O2 -g0 -c "$V/vsched/vsched.cpp" -o "$RT.$$" && mv "$RT.$$" "$RT"
fi
g++ -std=c++17 -O1 -g0 -w -fsanitize=thread --param tsan-distinguish-volatile=1 -D_OPENMP=201511 -fno-access-control \
    -I"$REPO/src/include" -I"$V/vsched" -I"$V/vsched/harness" "$@" -c "$V/vsched/harness/$N.cpp" -o "$OUT/$N.o"
g++ "$OUT/$N.o" "$RT" -o "$OUT/$N" -lpthread
echo "$OUT/$N"
