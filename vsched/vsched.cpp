// vsched runtime + explorer. Compiled WITHOUT instrumentation. See vsched.h and DESIGN.md section 3.1.
//
// Execution model: one explorer process per scenario (forked by a tiny supervisor that survives crashes of the
// code under test).  Executions are run one after the other inside the explorer process: persistent virtual
// threads (real pthreads, fixed stacks), exactly one holds the baton; every hooked operation (atomic,
// volatile access, conflict-location access, lock call, yield) is a scheduling point at which the schedule
// decides who runs next.  All memory the code under test allocates comes from per-thread bump arenas at fixed
// addresses that are wiped between executions, so an execution is a pure function of its schedule.
#include "vsched.h"
#include <algorithm>
#include <cerrno>
#include <cstdarg>
#include <cstdio>
#include <cstdlib>
#include <cstring>
#include <linux/futex.h>
#include <new>
#include <pthread.h>
#include <sched.h>
#include <setjmp.h>
#include <set>
#include <signal.h>
#include <string>
#include <sys/mman.h>
#include <sys/personality.h>
#include <sys/syscall.h>
#include <sys/wait.h>
#include <time.h>
#include <unistd.h>
#include <vector>

#define MAXP (1 << 17)
#define NCONF (1 << 16)
#define OBSCAP 4096
#define NACC (1 << 18)
#define ARENA_SIZE (64u << 20)

enum Result { RES_OK = 0, RES_CHECK = 1, RES_INVARIANT = 2, RES_DEADLOCK = 3, RES_LIVELOCK = 4, RES_DIVERGED = 5, RES_INTERNAL = 6, RES_SLEEPBLOCKED = 7 };
static const char* result_name(int r) {
    switch (r) {
        case RES_OK: return "ok";
        case RES_CHECK: return "final-check-failed";
        case RES_INVARIANT: return "step-invariant-failed";
        case RES_DEADLOCK: return "deadlock";
        case RES_LIVELOCK: return "livelock-or-step-horizon";
        case RES_DIVERGED: return "replay-diverged";
        default: return "internal";
    }
}

// Shared between supervisor and explorer child (survives a crash of the child).
struct Shared {
    // the execution currently running (or the one that ended the exploration)
    int prefix_len;
    int forced;
    int use_dpoints;
    int use_sleep;      // partial-order reduction, no preemption bound: 1 = sleep sets, 2 = DPOR (backtrack sets from races) + sleep sets
    long horizon;
    unsigned char prefix[MAXP];
    int running;        // 1 while an execution is in flight
    int result;         // Result of the last finished execution
    int trace_len;
    unsigned char nopts[MAXP];
    unsigned char chosen[MAXP];
    unsigned char cur_enabled[MAXP];
    unsigned char chosen_tid[MAXP];
    unsigned char en_mask[MAXP];     // partial-order modes: enabled threads / sleep set at each decision position,
    unsigned char z_mask[MAXP];
    unsigned char done_mask[MAXP];   // and (input) the threads already explored at the prefix positions
    long points;
    unsigned long long outcome_hash;
    char obs[OBSCAP];
    // conflict locations used by the current pass / found so far
    uintptr_t D[NCONF];
    uintptr_t Dnew[NCONF];
    int d_count, dnew_count;
    // progress of the exploration
    long executions, transitions, decisions, nodes, blocked;
    int bound_completed, bound_running, passes, capped, finished;
    int distinct_outcomes;
    unsigned long long outcomes_sum;   // sum of the hashes of the distinct outcomes (set fingerprint, for differential runs)
    int nsamples;
    char samples[3][1024];
    int had_invariant;   // the last execution registered a step invariant (it reads global state after every transition)
    int violation;       // 1: the last execution violated (kind in vkind)
    char vkind[128];
};

static Shared* S;

// ------------------------------------------------------------------------------------------------ arenas
static char* g_arena[VS_MAX_THREADS + 1];
static size_t g_arena_used[VS_MAX_THREADS + 1];
static volatile int g_arena_on = 0;
static __thread int tl_tid = -1;
static __thread int tl_inrt = 0;

static inline bool in_arena(void* p) {
    return g_arena[0] && (char*)p >= g_arena[0] && (char*)p < g_arena[0] + (size_t)(VS_MAX_THREADS + 1) * ARENA_SIZE;
}
static void* arena_alloc(size_t n, size_t al) {
    int a = tl_tid >= 0 ? tl_tid + 1 : 0;
    size_t off = (g_arena_used[a] + al - 1) & ~(al - 1);
    if (off + n > ARENA_SIZE) { fprintf(stderr, "vsched: arena %d exhausted\n", a); _exit(2); }
    g_arena_used[a] = off + n;
    return g_arena[a] + off;
}
static void* vs_new(size_t n, size_t al) {
    if (n == 0) n = 1;
    if (g_arena_on && g_arena[0]) return arena_alloc(n, al < 16 ? 16 : al);
    void* p = nullptr;
    if (al <= 16) p = malloc(n);
    else if (posix_memalign(&p, al, n) != 0) p = nullptr;
    if (!p) { fprintf(stderr, "vsched: out of memory\n"); _exit(2); }
    return p;
}
static void vs_delete(void* p) {
    if (!p || in_arena(p)) return;
    free(p);
}
void* operator new(size_t n) { return vs_new(n, 16); }
void* operator new[](size_t n) { return vs_new(n, 16); }
void* operator new(size_t n, const std::nothrow_t&) noexcept { return vs_new(n, 16); }
void* operator new[](size_t n, const std::nothrow_t&) noexcept { return vs_new(n, 16); }
void* operator new(size_t n, std::align_val_t a) { return vs_new(n, (size_t)a); }
void* operator new[](size_t n, std::align_val_t a) { return vs_new(n, (size_t)a); }
void operator delete(void* p) noexcept { vs_delete(p); }
void operator delete[](void* p) noexcept { vs_delete(p); }
void operator delete(void* p, size_t) noexcept { vs_delete(p); }
void operator delete[](void* p, size_t) noexcept { vs_delete(p); }
void operator delete(void* p, std::align_val_t) noexcept { vs_delete(p); }
void operator delete[](void* p, std::align_val_t) noexcept { vs_delete(p); }
void operator delete(void* p, size_t, std::align_val_t) noexcept { vs_delete(p); }
void operator delete[](void* p, size_t, std::align_val_t) noexcept { vs_delete(p); }

// ------------------------------------------------------------------------------------------------ explorer-process side
namespace {

enum TState { T_IDLE, T_RUNNABLE, T_BLOCKED_MUTEX, T_BLOCKED_SPIN, T_DONE };

struct LogEnt {
    void* pc;
    uintptr_t addr;
    unsigned long long val;
    bool wrote;
};

struct VThread {
    pthread_t th;
    bool created;
    int go;  // futex word
    TState st;
    uintptr_t wait_obj;
    uintptr_t spin_addrs[8];
    int nspin;
    LogEnt log[32];
    int logn;
    uintptr_t pending_wake[4];
    int npending;
    bool yielded;
    int spin_threshold;   // identical periods needed for a spin suspicion (3; multiplied by 8 after every rescue)
    int run[5];           // run[p]: number of consecutive log entries equal to the entry p positions earlier
    char notes[1024];
    int notes_len;
    char* stack_lo;
    char* stack_hi;
    // the visible operation this thread performs next (declared at its scheduling point); used by the sleep sets
    unsigned char pend_kind;
    uintptr_t pend_addr;
    int pend_sz;
    bool detector;
    bool started;     // has received the baton in the current execution
    jmp_buf jb;
};
enum { PK_NONE = 0, PK_READ = 1, PK_WRITE = 2, PK_UNKNOWN = 3, PK_READALL = 4 };   // READALL: an unrecorded read of any shared location

VThread T[VS_MAX_THREADS];
alignas(4096) char g_stacks[VS_MAX_THREADS][1 << 20];
int NT = 0;
volatile int g_controlled = 0;
int g_main_go = 0;
long g_points = 0;
int g_pos = 0;
int g_rescues = 0;
int (*g_invariant)(std::string&) = nullptr;
int g_debug = 0;
unsigned g_Z = 0;              // sleep set (bit per thread)
#define MAXTL (1 << 17)
struct TLog { unsigned char tid, kind; int pos; uintptr_t addr; int sz; };
TLog g_tl[MAXTL];              // partial-order modes: every transition of the running execution
int g_ntl = 0;
volatile int g_abort = 0;      // the running execution is being abandoned (sleep-set blocked)
int g_abort_ack = 0;

struct VMutex { uintptr_t addr; int owner; };
struct VRw { uintptr_t addr; int writer; int readers; unsigned char rd[VS_MAX_THREADS]; };
VMutex g_mutexes[256];
int g_nmutex = 0;
VRw g_rws[64];
int g_nrw = 0;

struct Acc { uintptr_t addr; unsigned char readers, writers; };
Acc g_acc[NACC];
int g_acc_used[NACC];
int g_nacc = 0;

long sys_futex(int* uaddr, int op, int val) { return syscall(SYS_futex, uaddr, op, val, nullptr, nullptr, 0); }
void wake_word(int* w) {
    __atomic_store_n(w, 1, __ATOMIC_SEQ_CST);
    sys_futex(w, FUTEX_WAKE, 1);
}
void sleep_word(int* w) {
    while (__atomic_load_n(w, __ATOMIC_SEQ_CST) == 0) sys_futex(w, FUTEX_WAIT, 0);
    __atomic_store_n(w, 0, __ATOMIC_SEQ_CST);
}

std::string all_notes() {
    std::string obs;
    for (int i = 0; i < NT; i++) obs += "T" + std::to_string(i) + ":" + std::string(T[i].notes, T[i].notes_len) + " ";
    return obs;
}

void store_result(int result, const std::string& obs) {
    S->result = result;
    S->points = g_points;
    S->trace_len = g_pos < MAXP ? g_pos : MAXP;
    unsigned long long h = 1469598103934665603ULL;
    for (char c : obs) { h ^= (unsigned char)c; h *= 1099511628211ULL; }
    S->outcome_hash = h;
    strncpy(S->obs, obs.c_str(), OBSCAP - 1);
    S->obs[OBSCAP - 1] = 0;
}

// A violation (or an internal problem) detected while threads are still alive: record it and leave the process;
// the supervisor reports it.  Exploration of a scenario ends at its first violation.
[[noreturn]] void die(int result, const std::string& extra) {
    store_result(result, all_notes() + extra);
    S->violation = 1;
    snprintf(S->vkind, sizeof S->vkind, "%s", result_name(result));
    S->running = 0;
    _exit(3);
}

bool in_D(uintptr_t a) {
    unsigned h = (unsigned)(a >> 2) & (NCONF - 1);
    for (int k = 0; k < 256; k++) {
        uintptr_t v = S->D[(h + k) & (NCONF - 1)];
        if (v == a) return true;
        if (v == 0) return false;
    }
    return false;
}
bool add_set(uintptr_t* tab, uintptr_t a, int* count) {
    unsigned h = (unsigned)(a >> 2) & (NCONF - 1);
    for (int k = 0; k < 256; k++) {
        uintptr_t& v = tab[(h + k) & (NCONF - 1)];
        if (v == a) return true;
        if (v == 0) { v = a; if (count) (*count)++; return true; }
    }
    return false;
}

void record_access(uintptr_t a, bool write) {
    unsigned h = (unsigned)(a >> 2) & (NACC - 1);
    for (int k = 0; k < 8192; k++) {
        int idx = (h + k) & (NACC - 1);
        Acc& e = g_acc[idx];
        if (e.addr == 0) { e.addr = a; g_acc_used[g_nacc++] = idx; }
        if (e.addr == a) {
            unsigned char bit = (unsigned char)(1u << tl_tid);
            if (write) e.writers |= bit; else e.readers |= bit;
            unsigned char all = e.readers | e.writers;
            if (e.writers && (all & (all - 1))) {
                if (!in_D(a) && !add_set(S->Dnew, a, &S->dnew_count)) die(RES_INTERNAL, "conflict table full");
            }
            return;
        }
    }
    die(RES_INTERNAL, "access table full");
}

bool enabled(int t) { return T[t].st == T_RUNNABLE; }

void wake_spinners(uintptr_t addr) {
    for (int t = 0; t < NT; t++) {
        if (T[t].st == T_BLOCKED_SPIN) {
            for (int k = 0; k < T[t].nspin; k++)
                if (T[t].spin_addrs[k] == addr) { T[t].st = T_RUNNABLE; T[t].pend_kind = PK_NONE; break; }
        }
    }
    g_rescues = 0;
}

void flush_pending(int me) {
    for (int k = 0; k < T[me].npending; k++) wake_spinners(T[me].pending_wake[k]);
    T[me].npending = 0;
}

void run_invariant() {
    if (!g_invariant) return;
    std::string why;
    int r = g_invariant(why);
    if (r) die(RES_INVARIANT, "INVARIANT: " + why);
}

bool independent(const VThread& a, const VThread& b) {
    if (a.pend_kind == PK_NONE || b.pend_kind == PK_NONE) return true;
    if (a.pend_kind == PK_UNKNOWN || b.pend_kind == PK_UNKNOWN) return false;
    if (a.pend_kind == PK_READALL) return b.pend_kind == PK_READ || b.pend_kind == PK_READALL;
    if (b.pend_kind == PK_READALL) return a.pend_kind == PK_READ;
    bool overlap = a.pend_addr < b.pend_addr + (uintptr_t)b.pend_sz && b.pend_addr < a.pend_addr + (uintptr_t)a.pend_sz;
    if (!overlap) return true;
    return a.pend_kind == PK_READ && b.pend_kind == PK_READ;
}

// The running execution cannot continue (every enabled thread is in the sleep set: all its continuations are covered by
// executions explored elsewhere).  Unwind every live virtual thread to the top of thread_main and hand control to main.
[[noreturn]] void abandon_execution(int me) {
    g_abort = 1;
    for (int u = 0; u < NT; u++) {
        if (u == me || T[u].st == T_DONE || T[u].st == T_IDLE || !T[u].started) continue;
        wake_word(&T[u].go);
        sleep_word(&g_abort_ack);
    }
    T[me].detector = true;
    longjmp(T[me].jb, 1);
}

// Decide who runs next; called by thread `me` (or -1 = main at the start) holding the baton.
void decide(int me) {
    for (;;) {
        int opts[VS_MAX_THREADS];
        int n = 0;
        bool me_en = (me >= 0 && enabled(me) && !T[me].yielded);
        if (me_en) opts[n++] = me;
        for (int t = 0; t < NT; t++)
            if (t != me && enabled(t)) opts[n++] = t;
        if (n == 0 && me >= 0 && enabled(me) && T[me].yielded) opts[n++] = me;
        if (n == 0) {
            bool all_done = true, any_spin = false;
            for (int t = 0; t < NT; t++) {
                if (T[t].st != T_DONE) all_done = false;
                if (T[t].st == T_BLOCKED_SPIN) any_spin = true;
            }
            if (all_done) { if (g_debug) (void)!write(2, "alldone\n", 8); wake_word(&g_main_go); return; }
            if (any_spin && g_rescues < 2) {
                // nobody can run: the suspicion may have been wrong (a bounded read-only loop looks like a spin).  Release the
                // suspects and do not suspect them again until they change memory; a thread that really spins then runs into
                // the step horizon and is reported as a livelock.
                g_rescues++;
                for (int t = 0; t < NT; t++)
                    if (T[t].st == T_BLOCKED_SPIN) { T[t].st = T_RUNNABLE; T[t].pend_kind = PK_NONE; if (T[t].spin_threshold < 1500) T[t].spin_threshold *= 8; }
                continue;
            }
            std::string w = "no enabled thread:";
            for (int t = 0; t < NT; t++) {
                char b[64];
                snprintf(b, sizeof b, " T%d=%s", t, T[t].st == T_DONE ? "done" : T[t].st == T_BLOCKED_MUTEX ? "blocked-on-lock" : T[t].st == T_BLOCKED_SPIN ? "spinning" : "?");
                w += b;
            }
            die(RES_DEADLOCK, w);
        }
        int pick = 0;
        if (me >= 0) T[me].yielded = false;
        int next;
        if (S->use_sleep) {
            // partial-order modes: a decision position is a point with >= 2 enabled threads; the prefix names thread ids
            unsigned enmask = 0;
            for (int k = 0; k < n; k++) enmask |= 1u << opts[k];
            int pos = -1, nt = -1;
            unsigned done_before = 0;
            if (n >= 2) {
                pos = g_pos++;
                if (pos >= MAXP) die(RES_LIVELOCK, "decision horizon");
                S->en_mask[pos] = (unsigned char)enmask;
                S->z_mask[pos] = (unsigned char)g_Z;
                if (pos < S->prefix_len) {
                    nt = S->prefix[pos];
                    if (!(enmask & (1u << nt))) die(RES_DIVERGED, "forced thread not enabled at decision " + std::to_string(pos));
                    done_before = S->done_mask[pos] & ~(1u << nt);
                }
            }
            if (nt < 0) {
                for (int k = 0; k < n && nt < 0; k++)
                    if (!(g_Z & (1u << opts[k]))) nt = opts[k];
                if (nt < 0) {
                    if (me < 0) die(RES_INTERNAL, "sleep set not empty at the start");
                    if (pos >= 0) g_pos--;
                    abandon_execution(me);
                }
            }
            if (pos >= 0) {
                int idx = 0;
                for (int k = 0; k < n; k++) if (opts[k] == nt) idx = k;
                S->nopts[pos] = (unsigned char)n;
                S->chosen[pos] = (unsigned char)idx;
                S->cur_enabled[pos] = me_en ? 1 : 0;
                S->chosen_tid[pos] = (unsigned char)nt;
                S->trace_len = pos + 1;
            }
            // threads explored before `nt` at this point go to sleep; a sleeping thread wakes up when an operation that
            // does not commute with its pending operation is executed
            unsigned cand = g_Z | done_before;
            unsigned nz = 0;
            for (int u = 0; u < NT; u++)
                if ((cand & (1u << u)) && u != nt && enabled(u) && independent(T[u], T[nt])) nz |= 1u << u;
            g_Z = nz;
            if (g_ntl < MAXTL) {
                TLog& e = g_tl[g_ntl++];
                e.tid = (unsigned char)nt; e.kind = T[nt].pend_kind; e.addr = T[nt].pend_addr; e.sz = T[nt].pend_sz; e.pos = pos;
            } else die(RES_LIVELOCK, "transition log full");
            next = nt;
        } else {
        if (n >= 2) {
            int pos = g_pos++;
            if (pos >= MAXP) die(RES_LIVELOCK, "decision horizon");
            int c = 0;
            if (pos < S->prefix_len) {
                c = S->prefix[pos];
                if (S->forced) {
                    int idx = -1;
                    for (int k = 0; k < n; k++) if (opts[k] == c) idx = k;
                    if (idx < 0) die(RES_DIVERGED, "forced thread not enabled at decision " + std::to_string(pos));
                    c = idx;
                } else if (c >= n) {
                    die(RES_DIVERGED, "prefix choice out of range at decision " + std::to_string(pos));
                }
            }
            S->nopts[pos] = (unsigned char)n;
            S->chosen[pos] = (unsigned char)c;
            S->cur_enabled[pos] = me_en ? 1 : 0;
            S->chosen_tid[pos] = (unsigned char)opts[c];
            S->trace_len = pos + 1;
            pick = c;
        }
        next = opts[pick];
        }
        if (g_debug) { char b[128]; int k = snprintf(b, sizeof b, "x%ld p%ld me=%d n=%d next=%d st=%d,%d\n", S->executions, g_points, me, n, next, (int)T[0].st, (int)T[1].st); (void)!write(2, b, k); }
        if (next != me) {
            // after the baton is handed over this thread must not look at shared scheduler state any more
            // (the next execution may already have been set up by the time it runs again)
            bool me_sleeps = (me >= 0 && T[me].st != T_DONE);
            wake_word(&T[next].go);
            if (me_sleeps) {
                sleep_word(&T[me].go);
                if (g_abort) longjmp(T[me].jb, 1);
            }
        }
        return;
    }
}

bool spinning(VThread& t) {
    // called after an entry has been appended: update the run lengths, then test them
    const LogEnt& e = t.log[(t.logn - 1) & 31];
    for (int p = 1; p <= 4; p++) {
        if (t.logn > p && !e.wrote) {
            const LogEnt& b = t.log[(t.logn - 1 - p) & 31];
            if (!b.wrote && e.pc == b.pc && e.addr == b.addr && e.val == b.val) { t.run[p]++; continue; }
        }
        t.run[p] = 0;
    }
    for (int p = 1; p <= 4; p++) {
        if (t.run[p] >= (t.spin_threshold - 1) * p) {
            t.nspin = 0;
            for (int i = 0; i < p; i++) {
                uintptr_t a = t.log[(t.logn - 1 - i) & 31].addr;
                bool dup = false;
                for (int k = 0; k < t.nspin; k++) if (t.spin_addrs[k] == a) dup = true;
                if (!dup && t.nspin < 8) t.spin_addrs[t.nspin++] = a;
            }
            for (int q = 1; q <= 4; q++) t.run[q] = 0;
            return true;
        }
    }
    return false;
}

// A scheduling point BEFORE an operation of the calling thread. Returns when it holds the baton again.
void point(int kind, uintptr_t addr, int sz) {
    int me = tl_tid;
    T[me].pend_kind = (unsigned char)kind; T[me].pend_addr = addr; T[me].pend_sz = sz;
    flush_pending(me);
    run_invariant();
    if (++g_points > S->horizon) die(RES_LIVELOCK, "step horizon exceeded");
    decide(me);
}

// Log the completed operation (for spin detection) and block if the thread is spinning.
void after_op(void* pc, uintptr_t addr, unsigned long long val, bool wrote) {
    int me = tl_tid;
    VThread& t = T[me];
    LogEnt& e = t.log[t.logn & 31];
    e.pc = pc; e.addr = addr; e.val = val; e.wrote = wrote;
    t.logn++;
    if (wrote) { for (int q = 1; q <= 4; q++) t.run[q] = 0; wake_spinners(addr); return; }
    if (spinning(t)) {
        t.st = T_BLOCKED_SPIN;
        decide(me);
    }
}

inline bool hooks_on() { return g_controlled && tl_tid >= 0 && !tl_inrt; }

inline bool own_stack(uintptr_t a) {
    VThread& t = T[tl_tid];
    return a >= (uintptr_t)t.stack_lo && a < (uintptr_t)t.stack_hi;
}

unsigned long long peek(uintptr_t a, int sz) {
    switch (sz) {
        case 1: return *(volatile unsigned char*)a;
        case 2: return *(volatile unsigned short*)a;
        case 4: return *(volatile unsigned int*)a;
        default: return *(volatile unsigned long long*)a;
    }
}

void plain_access(void* p, int sz, bool write, bool is_volatile, void* pc) {
    uintptr_t a = (uintptr_t)p;
    // accesses to the thread's own stack are recorded too: OpenMP shares the enclosing function's locals by reference, so a
    // variable on thread 0's stack can be raced on by every worker (the compiler only instruments locals whose address escapes)
    tl_inrt++;
    if (!is_volatile) record_access(a, write);
    // use_dpoints: 1 = volatile accesses and conflict locations are points (default), 0 = volatile only,
    //              2 = neither ("sync-only": atomics, locks and yields; a coarser but much smaller schedule space)
    bool pt = S->use_dpoints == 2 ? false : (is_volatile || (S->use_dpoints && in_D(a)));
    if (pt) {
        point(write ? PK_WRITE : PK_READ, a, sz);
        if (write) {
            // the store itself happens after this hook returns: wake spinners at this thread's next hook
            VThread& t = T[tl_tid];
            if (t.npending < 4) t.pending_wake[t.npending++] = a;
            LogEnt& e = t.log[t.logn & 31];
            e.pc = pc; e.addr = a; e.val = 0; e.wrote = true;
            t.logn++;
            for (int q = 1; q <= 4; q++) t.run[q] = 0;
            g_rescues = 0;
        } else {
            after_op(pc, a, peek(a, sz > 8 ? 8 : sz), false);
        }
    }
    tl_inrt--;
}

VMutex* vmutex(uintptr_t a) {
    for (int i = 0; i < g_nmutex; i++) if (g_mutexes[i].addr == a) return &g_mutexes[i];
    if (g_nmutex >= 256) die(RES_INTERNAL, "too many mutexes");
    g_mutexes[g_nmutex].addr = a;
    g_mutexes[g_nmutex].owner = -1;
    return &g_mutexes[g_nmutex++];
}
VRw* vrw(uintptr_t a) {
    for (int i = 0; i < g_nrw; i++) if (g_rws[i].addr == a) return &g_rws[i];
    if (g_nrw >= 64) die(RES_INTERNAL, "too many rwlocks");
    VRw& r = g_rws[g_nrw++];
    r.addr = a; r.writer = -1; r.readers = 0; memset(r.rd, 0, sizeof r.rd);
    return &r;
}
void wake_waiters(uintptr_t obj) {
    for (int t = 0; t < NT; t++)
        if (T[t].st == T_BLOCKED_MUTEX && T[t].wait_obj == obj) { T[t].st = T_RUNNABLE; T[t].pend_kind = PK_NONE; }
    g_rescues = 0;
}

void* thread_main(void* arg) {
    int me = (int)(intptr_t)arg;
    tl_tid = me;
    T[me].stack_lo = g_stacks[me];
    T[me].stack_hi = g_stacks[me] + sizeof g_stacks[me];
    for (;;) {
        if (setjmp(T[me].jb)) {
            // landed here because the execution was abandoned; touch nothing but our own words from here on
            tl_inrt = 0;
            if (T[me].detector) { T[me].detector = false; wake_word(&g_main_go); }
            else wake_word(&g_abort_ack);
        }
        if (g_debug) { char b[64]; int k = snprintf(b, sizeof b, "T%d top go=%d\n", me, T[me].go); (void)!write(2, b, k); }
        sleep_word(&T[me].go);   // wait for the baton of a new execution
        T[me].started = true;
        if (g_debug) { char b[64]; int k = snprintf(b, sizeof b, "T%d start inrt=%d ctl=%d\n", me, tl_inrt, (int)g_controlled); (void)!write(2, b, k); }
        vs_thread(me);
        tl_inrt++;
        flush_pending(me);
        run_invariant();
        T[me].st = T_DONE;
        decide(me);
        tl_inrt--;
    }
    return nullptr;
}

// Runs one execution in this process. Returns the Result for normally completed executions (violations that are
// detected while threads are alive leave the process through die()).
int run_execution(int scenario) {
    // wipe arenas and per-execution state
    for (int a = 0; a <= VS_MAX_THREADS; a++) {
        if (g_arena_used[a]) memset(g_arena[a], 0, g_arena_used[a]);
        g_arena_used[a] = 0;
    }
    for (int i = 0; i < g_nacc; i++) { Acc& e = g_acc[g_acc_used[i]]; e.addr = 0; e.readers = e.writers = 0; }
    g_nacc = 0;
    g_nmutex = 0;
    g_nrw = 0;
    g_points = 0;
    g_pos = 0;
    g_rescues = 0;
    g_Z = 0;
    g_ntl = 0;
    g_abort = 0;
    g_invariant = nullptr;
    S->trace_len = 0;
    S->running = 1;
    g_arena_on = 1;
    NT = vs_setup(scenario);
    if (NT < 1 || NT > VS_MAX_THREADS) { fprintf(stderr, "vsched: bad thread count %d\n", NT); _exit(2); }
    for (int i = 0; i < NT; i++) {
        T[i].st = T_RUNNABLE; T[i].logn = 0; T[i].npending = 0; T[i].yielded = false; T[i].notes_len = 0; T[i].nspin = 0; T[i].spin_threshold = 3; for (int q = 0; q < 5; q++) T[i].run[q] = 0;
        T[i].pend_kind = PK_NONE; T[i].detector = false; T[i].started = false;
        if (!T[i].created) {
            g_arena_on = 0;
            pthread_attr_t at;
            pthread_attr_init(&at);
            pthread_attr_setstack(&at, g_stacks[i], sizeof g_stacks[i]);
            T[i].go = 0;
            pthread_create(&T[i].th, &at, thread_main, (void*)(intptr_t)i);
            T[i].created = true;
            g_arena_on = 1;
        }
    }
    g_controlled = 1;
    decide(-1);
    sleep_word(&g_main_go);
    g_controlled = 0;
    S->had_invariant = g_invariant != nullptr;
    if (g_abort) {
        g_abort = 0;
        S->result = RES_SLEEPBLOCKED;
        S->points = g_points;
        g_arena_on = 0;
        S->running = 0;
        return RES_SLEEPBLOCKED;
    }
    int r;
    {
        std::string obs;
        r = vs_check(obs);
        store_result(r ? RES_CHECK : RES_OK, all_notes() + obs);
    }
    g_arena_on = 0;
    S->running = 0;
    return r ? RES_CHECK : RES_OK;
}

}  // namespace

// ------------------------------------------------------------------------------------------------ public helpers
namespace vs {
void set_step_invariant(int (*fn)(std::string&)) { g_invariant = fn; }
void note(const char* fmt, ...) {
    if (tl_tid < 0) return;
    VThread& t = T[tl_tid];
    va_list ap;
    va_start(ap, fmt);
    int room = (int)sizeof(t.notes) - t.notes_len;
    int n = vsnprintf(t.notes + t.notes_len, room > 0 ? room : 0, fmt, ap);
    va_end(ap);
    if (n > 0) t.notes_len = std::min((int)sizeof(t.notes) - 1, t.notes_len + n);
}
void ghost_point() {
    if (!hooks_on()) return;
    tl_inrt++;
    point(PK_UNKNOWN, 0, 0);
    tl_inrt--;
}
void quiet_begin() {
    // what a quiet section reads is not recorded, so its position relative to every other thread's writes matters:
    // it starts with a scheduling point whose operation commutes with reads only (quiet sections must not write shared state
    // except on the way to reporting a violation)
    if (hooks_on()) { tl_inrt++; point(PK_READALL, 0, 0); tl_inrt--; }
    tl_inrt++;
}
void quiet_end() { tl_inrt--; }
int self() { return tl_tid; }
long step() { return g_points; }
bool controlled() { return g_controlled != 0; }
}  // namespace vs

// ------------------------------------------------------------------------------------------------ hooks
#define RA __builtin_return_address(0)
extern "C" {
void __tsan_init() {}
void __tsan_func_entry(void*) {}
void __tsan_func_exit() {}
void __tsan_vptr_update(void**, void*) {}
void __tsan_vptr_read(void**) {}
#define PLAIN(N) \
    void __tsan_read##N(void* a) { if (hooks_on()) plain_access(a, N, false, false, RA); } \
    void __tsan_write##N(void* a) { if (hooks_on()) plain_access(a, N, true, false, RA); } \
    void __tsan_unaligned_read##N(void* a) { if (hooks_on()) plain_access(a, N, false, false, RA); } \
    void __tsan_unaligned_write##N(void* a) { if (hooks_on()) plain_access(a, N, true, false, RA); } \
    void __tsan_volatile_read##N(void* a) { if (hooks_on()) plain_access(a, N, false, true, RA); } \
    void __tsan_volatile_write##N(void* a) { if (hooks_on()) plain_access(a, N, true, true, RA); } \
    void __tsan_unaligned_volatile_read##N(void* a) { if (hooks_on()) plain_access(a, N, false, true, RA); } \
    void __tsan_unaligned_volatile_write##N(void* a) { if (hooks_on()) plain_access(a, N, true, true, RA); } \
    void __tsan_read##N##_pc(void* a, void*) { if (hooks_on()) plain_access(a, N, false, false, RA); } \
    void __tsan_write##N##_pc(void* a, void*) { if (hooks_on()) plain_access(a, N, true, false, RA); }
PLAIN(1) PLAIN(2) PLAIN(4) PLAIN(8) PLAIN(16)
void __tsan_read_range(void* a, unsigned long n) {
    if (!hooks_on()) return;
    for (unsigned long i = 0; i < n; i += 8) plain_access((char*)a + i, 8, false, false, RA);
}
void __tsan_write_range(void* a, unsigned long n) {
    if (!hooks_on()) return;
    for (unsigned long i = 0; i < n; i += 8) plain_access((char*)a + i, 8, true, false, RA);
}
void __tsan_read_range_pc(void* a, unsigned long n, void*) { __tsan_read_range(a, n); }
void __tsan_write_range_pc(void* a, unsigned long n, void*) { __tsan_write_range(a, n); }

// ---- atomics: the operation is performed inside the hook, after the scheduling point
#define ATOMIC(BITS, TY) \
    TY __tsan_atomic##BITS##_load(const volatile TY* a, int) { \
        if (!hooks_on()) return __atomic_load_n(a, __ATOMIC_SEQ_CST); \
        tl_inrt++; point(PK_READ, (uintptr_t)a, BITS / 8); TY v = __atomic_load_n(a, __ATOMIC_SEQ_CST); after_op(RA, (uintptr_t)a, (unsigned long long)v, false); tl_inrt--; return v; } \
    void __tsan_atomic##BITS##_store(volatile TY* a, TY v, int) { \
        if (!hooks_on()) { __atomic_store_n(a, v, __ATOMIC_SEQ_CST); return; } \
        tl_inrt++; point(PK_WRITE, (uintptr_t)a, BITS / 8); TY o = __atomic_load_n(a, __ATOMIC_SEQ_CST); __atomic_store_n(a, v, __ATOMIC_SEQ_CST); after_op(RA, (uintptr_t)a, (unsigned long long)v, o != v); tl_inrt--; } \
    TY __tsan_atomic##BITS##_exchange(volatile TY* a, TY v, int) { \
        if (!hooks_on()) return __atomic_exchange_n(a, v, __ATOMIC_SEQ_CST); \
        tl_inrt++; point(PK_WRITE, (uintptr_t)a, BITS / 8); TY o = __atomic_exchange_n(a, v, __ATOMIC_SEQ_CST); after_op(RA, (uintptr_t)a, (unsigned long long)o, o != v); tl_inrt--; return o; } \
    int __tsan_atomic##BITS##_compare_exchange_strong(volatile TY* a, TY* e, TY d, int, int) { \
        if (!hooks_on()) return __atomic_compare_exchange_n(a, e, d, 0, __ATOMIC_SEQ_CST, __ATOMIC_SEQ_CST); \
        tl_inrt++; point(PK_WRITE, (uintptr_t)a, BITS / 8); TY exp = *e; int ok = __atomic_compare_exchange_n(a, e, d, 0, __ATOMIC_SEQ_CST, __ATOMIC_SEQ_CST); \
        after_op(RA, (uintptr_t)a, (unsigned long long)*e ^ ((unsigned long long)exp << 1), ok && exp != d); tl_inrt--; return ok; } \
    int __tsan_atomic##BITS##_compare_exchange_weak(volatile TY* a, TY* e, TY d, int, int) { \
        if (!hooks_on()) return __atomic_compare_exchange_n(a, e, d, 0, __ATOMIC_SEQ_CST, __ATOMIC_SEQ_CST); \
        tl_inrt++; point(PK_WRITE, (uintptr_t)a, BITS / 8); TY exp = *e; int ok = __atomic_compare_exchange_n(a, e, d, 0, __ATOMIC_SEQ_CST, __ATOMIC_SEQ_CST); \
        after_op(RA, (uintptr_t)a, (unsigned long long)*e ^ ((unsigned long long)exp << 1), ok && exp != d); tl_inrt--; return ok; } \
    TY __tsan_atomic##BITS##_compare_exchange_val(volatile TY* a, TY e, TY d, int, int) { \
        if (!hooks_on()) { __atomic_compare_exchange_n(a, &e, d, 0, __ATOMIC_SEQ_CST, __ATOMIC_SEQ_CST); return e; } \
        tl_inrt++; point(PK_WRITE, (uintptr_t)a, BITS / 8); TY exp = e; int ok = __atomic_compare_exchange_n(a, &e, d, 0, __ATOMIC_SEQ_CST, __ATOMIC_SEQ_CST); \
        after_op(RA, (uintptr_t)a, (unsigned long long)e, ok && exp != d); tl_inrt--; return e; }
#define RMW(BITS, TY, NAME, BUILTIN) \
    TY __tsan_atomic##BITS##_##NAME(volatile TY* a, TY v, int) { \
        if (!hooks_on()) return BUILTIN(a, v, __ATOMIC_SEQ_CST); \
        tl_inrt++; point(PK_WRITE, (uintptr_t)a, BITS / 8); TY o = BUILTIN(a, v, __ATOMIC_SEQ_CST); TY n = __atomic_load_n(a, __ATOMIC_SEQ_CST); \
        after_op(RA, (uintptr_t)a, (unsigned long long)o, o != n); tl_inrt--; return o; }
#define ALLATOMIC(BITS, TY) ATOMIC(BITS, TY) RMW(BITS, TY, fetch_add, __atomic_fetch_add) RMW(BITS, TY, fetch_sub, __atomic_fetch_sub) \
    RMW(BITS, TY, fetch_and, __atomic_fetch_and) RMW(BITS, TY, fetch_or, __atomic_fetch_or) RMW(BITS, TY, fetch_xor, __atomic_fetch_xor) \
    RMW(BITS, TY, fetch_nand, __atomic_fetch_nand)
ALLATOMIC(8, unsigned char)
ALLATOMIC(16, unsigned short)
ALLATOMIC(32, unsigned int)
ALLATOMIC(64, unsigned long long)
void __tsan_atomic_thread_fence(int) {}
void __tsan_atomic_signal_fence(int) {}

// ---- libc locks (std::mutex, std::shared_mutex) and yields, interposed at link time
int pthread_mutex_lock(pthread_mutex_t* m) {
    if (!hooks_on()) return 0;
    tl_inrt++;
    VMutex* v = vmutex((uintptr_t)m);
    for (;;) {
        point(PK_WRITE, (uintptr_t)m, 8);
        if (v->owner == -1) { v->owner = tl_tid; break; }
        T[tl_tid].st = T_BLOCKED_MUTEX;
        T[tl_tid].wait_obj = (uintptr_t)m;
        decide(tl_tid);
    }
    T[tl_tid].logn = 0;
    tl_inrt--;
    return 0;
}
int pthread_mutex_trylock(pthread_mutex_t* m) {
    if (!hooks_on()) return 0;
    tl_inrt++;
    VMutex* v = vmutex((uintptr_t)m);
    point(PK_WRITE, (uintptr_t)m, 8);
    int r = EBUSY;
    if (v->owner == -1) { v->owner = tl_tid; r = 0; }
    after_op(RA, (uintptr_t)m, (unsigned long long)r, r == 0);
    tl_inrt--;
    return r;
}
int pthread_mutex_unlock(pthread_mutex_t* m) {
    if (!hooks_on()) return 0;
    tl_inrt++;
    VMutex* v = vmutex((uintptr_t)m);
    point(PK_WRITE, (uintptr_t)m, 8);
    v->owner = -1;
    wake_waiters((uintptr_t)m);
    wake_spinners((uintptr_t)m);
    T[tl_tid].logn = 0;
    tl_inrt--;
    return 0;
}
static int rw_acquire(pthread_rwlock_t* l, bool write, bool try_only) {
    if (!hooks_on()) return 0;
    tl_inrt++;
    VRw* v = vrw((uintptr_t)l);
    int r = 0;
    for (;;) {
        point(PK_WRITE, (uintptr_t)l, 8);
        bool can = write ? (v->writer == -1 && v->readers == 0) : (v->writer == -1);
        if (can) {
            if (write) v->writer = tl_tid; else { v->readers++; v->rd[tl_tid]++; }
            break;
        }
        if (try_only) { r = EBUSY; break; }
        T[tl_tid].st = T_BLOCKED_MUTEX;
        T[tl_tid].wait_obj = (uintptr_t)l;
        decide(tl_tid);
    }
    T[tl_tid].logn = 0;
    tl_inrt--;
    return r;
}
int pthread_rwlock_rdlock(pthread_rwlock_t* l) { return rw_acquire(l, false, false); }
int pthread_rwlock_wrlock(pthread_rwlock_t* l) { return rw_acquire(l, true, false); }
int pthread_rwlock_tryrdlock(pthread_rwlock_t* l) { return rw_acquire(l, false, true); }
int pthread_rwlock_trywrlock(pthread_rwlock_t* l) { return rw_acquire(l, true, true); }
int pthread_rwlock_unlock(pthread_rwlock_t* l) {
    if (!hooks_on()) return 0;
    tl_inrt++;
    VRw* v = vrw((uintptr_t)l);
    point(PK_WRITE, (uintptr_t)l, 8);
    if (v->writer == tl_tid) v->writer = -1;
    else if (v->rd[tl_tid] > 0) { v->rd[tl_tid]--; v->readers--; }
    wake_waiters((uintptr_t)l);
    T[tl_tid].logn = 0;
    tl_inrt--;
    return 0;
}
int sched_yield(void) {
    if (!hooks_on()) return 0;
    tl_inrt++;
    flush_pending(tl_tid);
    run_invariant();
    if (++g_points > S->horizon) die(RES_LIVELOCK, "step horizon exceeded");
    T[tl_tid].yielded = true;
    T[tl_tid].pend_kind = PK_UNKNOWN;
    decide(tl_tid);
    tl_inrt--;
    return 0;
}
// OpenMP identity (selects lanes / per-thread contexts in souffle's code)
static int g_omp_max = VS_MAX_THREADS;
int omp_get_thread_num(void) { return tl_tid >= 0 ? tl_tid : 0; }
int omp_get_max_threads(void) { return g_omp_max; }
int omp_get_num_threads(void) { return NT > 0 ? NT : 1; }
void omp_set_num_threads(int n) { g_omp_max = n; }
int omp_in_parallel(void) { return g_controlled; }
}  // extern "C"

// ------------------------------------------------------------------------------------------------ explorer
static double now() {
    timespec ts;
    clock_gettime(CLOCK_MONOTONIC, &ts);
    return ts.tv_sec + ts.tv_nsec * 1e-9;
}

static void set_prefix(const std::vector<unsigned char>& prefix, bool forced, long horizon) {
    S->prefix_len = (int)prefix.size();
    if (!prefix.empty()) memcpy(S->prefix, prefix.data(), prefix.size());
    S->forced = forced ? 1 : 0;
    S->horizon = horizon;
}

// Explores all schedules of `scenario` with at most `bound` preemptions. Runs inside the explorer process.
// Returns false when capped.
static bool explore_bound(int scenario, int bound, long max_exec, double deadline, long horizon, std::set<unsigned long long>& outcomes) {
    std::vector<std::vector<unsigned char>> stack;
    stack.push_back({});
    while (!stack.empty()) {
        std::vector<unsigned char> prefix = std::move(stack.back());
        stack.pop_back();
        set_prefix(prefix, false, horizon);
        int r = run_execution(scenario);
        S->executions++;
        S->transitions += S->points;
        int n = S->trace_len;
        S->decisions += n;
        S->nodes += (n > (int)prefix.size() ? n - (int)prefix.size() : 0) + 1;
        if (r == RES_SLEEPBLOCKED) S->blocked++;
        else if (r != RES_OK) {
            S->violation = 1;
            snprintf(S->vkind, sizeof S->vkind, "%s", result_name(r));
            _exit(3);
        }
        if (r == RES_OK && outcomes.insert(S->outcome_hash).second) {
            S->distinct_outcomes = (int)outcomes.size();
            S->outcomes_sum += S->outcome_hash;
            if (S->nsamples < 3) { strncpy(S->samples[S->nsamples], S->obs, 1023); S->samples[S->nsamples][1023] = 0; S->nsamples++; }
        }
        int cost = 0;
        std::vector<int> cost_before(n + 1, 0);
        for (int i = 0; i < n; i++) {
            cost_before[i] = cost;
            if (S->cur_enabled[i] && S->chosen[i] != 0) cost++;
        }
        for (int i = n - 1; i >= (int)prefix.size(); i--) {
            int c = cost_before[i] + (S->cur_enabled[i] ? 1 : 0);
            if (c > bound) continue;
            for (int alt = S->nopts[i] - 1; alt >= 1; alt--) {
                std::vector<unsigned char> np(S->chosen, S->chosen + i);
                np.push_back((unsigned char)alt);
                stack.push_back(std::move(np));
            }
        }
        if ((max_exec > 0 && S->executions >= max_exec) || (deadline > 0 && now() > deadline)) {
            if (!stack.empty()) return false;
        }
    }
    return true;
}

// ---- partial-order reduction (no preemption bound): sleep sets (mode 1) or DPOR backtrack sets + sleep sets (mode 2)
struct PNode { unsigned en, z, backtrack, done; int chosen; };

// Races of the execution just run: for every transition j, the latest earlier transitions of other threads that do not
// commute with it and are not ordered before it by happens-before (program order + dependence) name a decision position at
// which running thread(j) first leads to a different partial order: add it to that position's backtrack set.
static void process_races(std::vector<PNode>& path) {
    struct Loc { uintptr_t key; int lastw; int lastr[VS_MAX_THREADS]; };
    static std::vector<Loc> tab;
    static std::vector<int> used;
    const unsigned TABN = 1u << 16;
    if (tab.empty()) { tab.resize(TABN); for (auto& l : tab) l.key = 0; }
    for (int i : used) tab[i].key = 0;
    used.clear();
    int nt = NT, m = g_ntl;
    typedef unsigned short Clk;
    static std::vector<Clk> clk;       // clk[j*VS_MAX_THREADS + t]
    clk.assign((size_t)m * VS_MAX_THREADS, 0);
    Clk vc[VS_MAX_THREADS][VS_MAX_THREADS];
    memset(vc, 0, sizeof vc);
    int last_unknown[VS_MAX_THREADS], last_any[VS_MAX_THREADS], last_write_any[VS_MAX_THREADS], last_readall[VS_MAX_THREADS];
    for (int t = 0; t < VS_MAX_THREADS; t++) last_unknown[t] = last_any[t] = last_write_any[t] = last_readall[t] = -1;
    auto loc = [&](uintptr_t key) -> Loc& {
        unsigned h = (unsigned)(key * 0x9E3779B97F4A7C15ULL >> 40) & (TABN - 1);
        for (;;) {
            Loc& l = tab[h];
            if (l.key == key) return l;
            if (l.key == 0) { l.key = key; l.lastw = -1; for (int t = 0; t < VS_MAX_THREADS; t++) l.lastr[t] = -1; used.push_back((int)h); return l; }
            h = (h + 1) & (TABN - 1);
        }
    };
    for (int j = 0; j < m; j++) {
        const TLog& e = g_tl[j];
        int p = e.tid;
        int cands[8 * VS_MAX_THREADS + 8];
        int nc = 0;
        Loc* ls[4];
        int nl = 0;
        if (e.kind == PK_READ || e.kind == PK_WRITE) {
            uintptr_t k0 = (e.addr >> 3) + 1, k1 = ((e.addr + (e.sz > 0 ? e.sz - 1 : 0)) >> 3) + 1;
            for (uintptr_t k = k0; k <= k1 && nl < 4; k++) ls[nl++] = &loc(k);
            for (int q = 0; q < nl; q++) {
                if (ls[q]->lastw >= 0) cands[nc++] = ls[q]->lastw;
                if (e.kind == PK_WRITE)
                    for (int t = 0; t < nt; t++)
                        if (t != p && ls[q]->lastr[t] >= 0 && nc < (int)(sizeof cands / sizeof cands[0])) cands[nc++] = ls[q]->lastr[t];
            }
            for (int t = 0; t < nt; t++)
                if (t != p && last_unknown[t] >= 0 && nc < (int)(sizeof cands / sizeof cands[0])) cands[nc++] = last_unknown[t];
            if (e.kind == PK_WRITE)
                for (int t = 0; t < nt; t++)
                    if (t != p && last_readall[t] >= 0 && nc < (int)(sizeof cands / sizeof cands[0])) cands[nc++] = last_readall[t];
        } else if (e.kind == PK_UNKNOWN) {
            for (int t = 0; t < nt; t++)
                if (t != p && last_any[t] >= 0) cands[nc++] = last_any[t];
        } else if (e.kind == PK_READALL) {
            for (int t = 0; t < nt; t++) {
                if (t != p && last_write_any[t] >= 0) cands[nc++] = last_write_any[t];
                if (t != p && last_unknown[t] >= 0) cands[nc++] = last_unknown[t];
            }
        }
        for (int c = 0; c < nc; c++) {
            int i = cands[c];
            int q = g_tl[i].tid;
            if (q == p) continue;
            bool hb = clk[(size_t)i * VS_MAX_THREADS + q] <= vc[p][q];
            if (!hb && g_tl[i].pos >= 0 && g_tl[i].pos < (int)path.size()) {
                PNode& nd = path[g_tl[i].pos];
                if (nd.en & (1u << p)) nd.backtrack |= 1u << p;
                else nd.backtrack |= nd.en;
            }
        }
        for (int c = 0; c < nc; c++) {
            int i = cands[c];
            for (int t = 0; t < nt; t++) {
                Clk v = clk[(size_t)i * VS_MAX_THREADS + t];
                if (v > vc[p][t]) vc[p][t] = v;
            }
        }
        vc[p][p]++;
        for (int t = 0; t < nt; t++) clk[(size_t)j * VS_MAX_THREADS + t] = vc[p][t];
        if (e.kind == PK_WRITE) for (int q = 0; q < nl; q++) { ls[q]->lastw = j; for (int t = 0; t < nt; t++) ls[q]->lastr[t] = -1; }
        if (e.kind == PK_READ) for (int q = 0; q < nl; q++) ls[q]->lastr[p] = j;
        if (e.kind == PK_UNKNOWN) last_unknown[p] = j;
        if (e.kind == PK_WRITE) last_write_any[p] = j;
        if (e.kind == PK_READALL) last_readall[p] = j;
        if (e.kind != PK_NONE) last_any[p] = j;
    }
}

static bool explore_por(int scenario, int mode, long max_exec, double deadline, long horizon, std::set<unsigned long long>& outcomes) {
    std::vector<PNode> path;
    for (;;) {
        S->prefix_len = (int)path.size();
        for (size_t i = 0; i < path.size(); i++) { S->prefix[i] = (unsigned char)path[i].chosen; S->done_mask[i] = (unsigned char)path[i].done; }
        S->forced = 1;
        S->horizon = horizon;
        int r = run_execution(scenario);
        S->executions++;
        S->transitions += S->points;
        int n = S->trace_len;
        S->decisions += n;
        if (n < (int)path.size()) { S->violation = 1; snprintf(S->vkind, sizeof S->vkind, "internal: execution shorter than its prefix"); _exit(3); }
        S->nodes += n - (int)path.size() + 1;
        if (r == RES_SLEEPBLOCKED) S->blocked++;
        else if (r != RES_OK) {
            S->violation = 1;
            snprintf(S->vkind, sizeof S->vkind, "%s", result_name(r));
            _exit(3);
        }
        if (r == RES_OK && outcomes.insert(S->outcome_hash).second) {
            S->distinct_outcomes = (int)outcomes.size();
            S->outcomes_sum += S->outcome_hash;
            if (S->nsamples < 3) { strncpy(S->samples[S->nsamples], S->obs, 1023); S->samples[S->nsamples][1023] = 0; S->nsamples++; }
        }
        for (int i = (int)path.size(); i < n; i++) {
            PNode nd;
            nd.en = S->en_mask[i]; nd.z = S->z_mask[i]; nd.chosen = S->chosen_tid[i];
            nd.done = 1u << nd.chosen;
            nd.backtrack = mode == 1 ? (nd.en & ~nd.z) : (1u << nd.chosen);
            if (S->had_invariant) nd.backtrack = nd.en & ~nd.z;
            path.push_back(nd);
        }
        // a step invariant observes every intermediate global state: race-driven backtracking explores one interleaving per
        // partial order and would skip some of those states, sleep sets alone visit every reachable state
        if (S->had_invariant && mode == 2) { mode = 1; S->use_sleep = 1; for (auto& nd : path) nd.backtrack = nd.en & ~nd.z; }
        if (mode == 2) process_races(path);
        while (!path.empty()) {
            PNode& nd = path.back();
            unsigned cand = nd.backtrack & ~nd.done & ~nd.z;
            if (cand) {
                int t = __builtin_ctz(cand);
                nd.chosen = t;
                nd.done |= 1u << t;
                break;
            }
            path.pop_back();
        }
        if (path.empty()) return true;
        if ((max_exec > 0 && S->executions >= max_exec) || (deadline > 0 && now() > deadline)) return false;
    }
}

static void merge_conflicts() {
    for (int i = 0; i < NCONF; i++)
        if (S->Dnew[i]) add_set(S->D, S->Dnew[i], &S->d_count);
    memset(S->Dnew, 0, sizeof S->Dnew);
    S->dnew_count = 0;
}

static void explorer_process(int scenario, int bound, long max_exec, double budget, long horizon, int dpoints) {
    {
        cpu_set_t set;
        CPU_ZERO(&set);
        int c = sched_getcpu();
        if (c >= 0 && !getenv("VSCHED_NO_PIN")) { CPU_SET(c, &set); sched_setaffinity(0, sizeof set, &set); }
    }
    double deadline = budget > 0 ? now() + budget : 0;
    g_debug = getenv("VSCHED_DEBUG") != nullptr;
    for (int pass = 0; pass < 8; pass++) {
        S->passes = pass + 1;
        S->executions = S->transitions = S->decisions = S->nodes = S->blocked = 0;
        S->bound_completed = -1;
        S->distinct_outcomes = 0;
        S->outcomes_sum = 0;
        S->nsamples = 0;
        std::set<unsigned long long> outcomes;
        bool complete = true;
        if (S->use_sleep) {
            S->bound_running = 1000000;
            complete = explore_por(scenario, S->use_sleep, max_exec, deadline, horizon, outcomes);
            if (complete) S->bound_completed = 1000000;
        } else
        for (int b = 0; b <= bound && complete; b++) {
            S->bound_running = b;
            complete = explore_bound(scenario, b, max_exec, deadline, horizon, outcomes);
            if (complete) S->bound_completed = b;
        }
        if (!complete) { S->capped = 1; merge_conflicts(); break; }
        int before = S->d_count;
        merge_conflicts();
        if (dpoints != 1 || S->d_count == before) break;
    }
    S->finished = 1;
    _exit(0);
}

static std::string json_escape(const std::string& s) {
    std::string o;
    for (unsigned char c : s) {
        if (c == '"' || c == '\\') { o += '\\'; o += (char)c; }
        else if (c == '\n') o += "\\n";
        else if (c < 32 || c > 126) { char b[8]; snprintf(b, sizeof b, "\\u%04x", c); o += b; }
        else o += (char)c;
    }
    return o;
}

static void print_list(const char* name, const unsigned char* a, int n) {
    printf("\"%s\": [", name);
    for (int i = 0; i < n; i++) printf("%s%d", i ? "," : "", a[i]);
    printf("]");
}

static void print_conflicts() {
    printf("\"conflicts\": [");
    bool first = true;
    for (int i = 0; i < NCONF; i++)
        if (S->D[i]) { printf("%s%lu", first ? "" : ",", (unsigned long)S->D[i]); first = false; }
    printf("]");
}

static std::vector<unsigned long> parse_ulist(const char* s) {
    std::vector<unsigned long> v;
    while (*s) {
        while (*s == ',' || *s == ' ') s++;
        if (!*s) break;
        v.push_back(strtoul(s, (char**)&s, 10));
    }
    return v;
}

int main(int argc, char** argv) {
    // identical address-space layout in every invocation (replay artefacts carry conflict-location addresses)
    {
        int pers = personality(0xffffffff);
        if (pers != -1 && !(pers & ADDR_NO_RANDOMIZE) && !getenv("VSCHED_NO_REEXEC")) {
            if (personality(pers | ADDR_NO_RANDOMIZE) != -1) {
                setenv("VSCHED_NO_REEXEC", "1", 1);
                execv("/proc/self/exe", argv);
            }
        }
    }
    S = (Shared*)mmap(nullptr, sizeof(Shared), PROT_READ | PROT_WRITE, MAP_SHARED | MAP_ANONYMOUS, -1, 0);
    if (S == MAP_FAILED) { perror("mmap"); return 2; }
    {
        // arenas at a fixed address
        void* want = (void*)0x500000000000UL;
        size_t total = (size_t)(VS_MAX_THREADS + 1) * ARENA_SIZE;
        void* p = mmap(want, total, PROT_READ | PROT_WRITE, MAP_PRIVATE | MAP_ANONYMOUS | MAP_NORESERVE | MAP_FIXED_NOREPLACE, -1, 0);
        if (p == MAP_FAILED) p = mmap(nullptr, total, PROT_READ | PROT_WRITE, MAP_PRIVATE | MAP_ANONYMOUS | MAP_NORESERVE, -1, 0);
        if (p == MAP_FAILED) { perror("mmap arenas"); return 2; }
        for (int a = 0; a <= VS_MAX_THREADS; a++) g_arena[a] = (char*)p + (size_t)a * ARENA_SIZE;
    }
    int from = -1, to = -1, bound = 2, dpoints = 1, use_sleep = 0;
    long max_exec = 0, horizon = 20000;
    double budget = 0;
    const char* replay = nullptr;
    const char* conflicts = nullptr;
    bool forced = false, list = false;
    std::vector<int> sel;
    for (int i = 1; i < argc; i++) {
        std::string a = argv[i];
        if (a == "--list") list = true;
        else if (a == "--explore" && i + 1 < argc) { from = atoi(argv[++i]); to = from + 1; }
        else if (a == "--range" && i + 2 < argc) { from = atoi(argv[++i]); to = atoi(argv[++i]); }
        else if (a == "--scenarios" && i + 1 < argc) { for (unsigned long x : parse_ulist(argv[++i])) sel.push_back((int)x); from = 0; to = 0; }
        else if (a == "--bound" && i + 1 < argc) bound = atoi(argv[++i]);
        else if (a == "--max-exec" && i + 1 < argc) max_exec = atol(argv[++i]);
        else if (a == "--budget" && i + 1 < argc) budget = atof(argv[++i]);
        else if (a == "--horizon" && i + 1 < argc) horizon = atol(argv[++i]);
        else if (a == "--dpoints" && i + 1 < argc) dpoints = atoi(argv[++i]);
        else if (a == "--sleep" && i + 1 < argc) use_sleep = atoi(argv[++i]);
        else if (a == "--replay" && i + 1 < argc) { from = atoi(argv[++i]); to = from + 1; }
        else if (a == "--schedule" && i + 1 < argc) replay = argv[++i];
        else if (a == "--conflicts" && i + 1 < argc) conflicts = argv[++i];
        else if (a == "--forced") forced = true;
        else { fprintf(stderr, "unknown argument %s\n", a.c_str()); return 2; }
    }
    if (list) {
        int n = vs_nscenarios();
        for (int s = 0; s < n; s++) printf("%d\t%s\n", s, vs_describe(s));
        return 0;
    }
    if (from < 0) { fprintf(stderr, "usage: harness --list | --explore S [--bound B] | --range A B | --replay S --schedule c0,c1,.. [--conflicts a,b,..] [--forced]\n"); return 2; }
    int nsc = vs_nscenarios();
    g_debug = getenv("VSCHED_DEBUG") != nullptr;
    if (replay) {
        memset(S, 0, sizeof(Shared));
        S->use_dpoints = dpoints;
        S->use_sleep = use_sleep;
        if (conflicts) for (unsigned long a : parse_ulist(conflicts)) add_set(S->D, (uintptr_t)a, &S->d_count);
        std::vector<unsigned char> sched;
        for (unsigned long x : parse_ulist(replay)) sched.push_back((unsigned char)x);
        set_prefix(sched, forced, horizon * 10);
        pid_t pid = fork();
        if (pid == 0) {
            alarm(600);
            int r = run_execution(from);
            _exit(r == RES_OK ? 0 : 3);
        }
        int st = 0;
        waitpid(pid, &st, 0);
        std::string kind;
        bool bad = true;
        if (WIFSIGNALED(st)) kind = std::string("fatal signal ") + strsignal(WTERMSIG(st));
        else if (WEXITSTATUS(st) == 0) { kind = "ok"; bad = false; }
        else if (WEXITSTATUS(st) == 3) kind = S->violation ? S->vkind : result_name(S->result);
        else kind = "internal error";
        printf("{\"replay\": true, \"result\": \"%s\", \"obs\": \"%s\", ", json_escape(kind).c_str(), json_escape(S->obs).c_str());
        print_list("threads", S->chosen_tid, S->trace_len);
        printf("}\n");
        return bad ? 1 : 0;
    }
    int rc = 0;
    for (int s = from; s < to && s < nsc; s++) sel.push_back(s);
    for (int s : sel) {
        if (s < 0 || s >= nsc) continue;
        double t0 = now();
        memset(S, 0, sizeof(Shared));
        S->use_dpoints = dpoints;
        S->use_sleep = use_sleep;
        pid_t pid = fork();
        if (pid == 0) {
            alarm(budget > 0 ? (unsigned)(budget * 3 + 120) : 3600);
            explorer_process(s, bound, max_exec, budget, horizon, dpoints);
            _exit(0);
        }
        int st = 0;
        waitpid(pid, &st, 0);
        bool violation = false;
        std::string kind;
        if (WIFSIGNALED(st)) {
            violation = true;
            if (WTERMSIG(st) == SIGALRM) kind = "hang (an execution did not complete within the time limit)";
            else kind = std::string("fatal signal ") + strsignal(WTERMSIG(st));
            if (!S->running) { kind += " outside an execution"; }
        } else if (WEXITSTATUS(st) == 3) {
            violation = true;
            kind = S->vkind;
        } else if (WEXITSTATUS(st) != 0 || !S->finished) {
            fprintf(stderr, "vsched: explorer for scenario %d failed (status %d)\n", s, st);
            return 2;
        }
        printf("{\"scenario\": %d, \"desc\": \"%s\", \"bound_requested\": %d, \"bound_completed\": %d, \"executions\": %ld, \"transitions\": %ld, \"decisions\": %ld, "
               "\"nodes\": %ld, \"sleep_sets\": %d, \"sleep_blocked\": %ld, \"distinct_outcomes\": %d, \"outcomes_fp\": \"%llx\", \"passes\": %d, \"conflict_locations\": %d, \"capped\": %s, \"secs\": %.2f, \"samples\": [",
               s, json_escape(vs_describe(s)).c_str(), bound, S->bound_completed, S->executions, S->transitions, S->decisions, S->nodes, S->use_sleep, S->blocked, S->distinct_outcomes, S->outcomes_sum,
               S->passes, S->d_count, S->capped ? "true" : "false", now() - t0);
        for (int i = 0; i < S->nsamples; i++) printf("%s\"%s\"", i ? ", " : "", json_escape(S->samples[i]).c_str());
        printf("], \"violation\": ");
        if (!violation) printf("null");
        else {
            printf("{\"kind\": \"%s\", \"obs\": \"%s\", ", json_escape(kind).c_str(), json_escape(S->obs).c_str());
            // the schedule that was running: replayed prefix followed by the choices recorded so far
            int n = S->trace_len;
            std::vector<unsigned char> sched(S->chosen, S->chosen + n);
            if (n < S->prefix_len && !use_sleep) { sched.assign(S->prefix, S->prefix + S->prefix_len); }
            print_list("schedule", sched.data(), (int)sched.size());
            printf(", ");
            print_list("threads", S->chosen_tid, n);
            printf(", ");
            print_conflicts();
            printf("}");
            rc = 1;
        }
        printf("}\n");
        fflush(stdout);
    }
    return rc;
}
