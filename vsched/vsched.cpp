// vsched runtime + explorer. Compiled WITHOUT instrumentation. See vsched.h and DESIGN.md section 3.1.
//
// Execution model: every execution of a scenario runs in a forked child (identical address space, so an
// execution is a pure function of its schedule).  Virtual threads are real pthreads; exactly one holds the
// baton; every hooked operation (atomic, volatile access, conflict-location access, lock call, yield) is a
// scheduling point at which the explorer's schedule decides who runs next.
#include "vsched.h"
#include <atomic>
#include <cerrno>
#include <cstdarg>
#include <cstdio>
#include <cstdlib>
#include <cstring>
#include <linux/futex.h>
#include <pthread.h>
#include <sched.h>
#include <signal.h>
#include <string>
#include <sys/mman.h>
#include <sys/syscall.h>
#include <sys/wait.h>
#include <time.h>
#include <unistd.h>
#include <vector>
#include <set>
#include <map>
#include <algorithm>

#define MAXP (1 << 18)
#define NCONF (1 << 16)
#define OBSCAP 8192

enum Result { RES_OK = 0, RES_CHECK = 1, RES_INVARIANT = 2, RES_DEADLOCK = 3, RES_LIVELOCK = 4, RES_DIVERGED = 5, RES_INTERNAL = 6 };
static const char* result_name(int r) {
    switch (r) {
        case RES_OK: return "ok";
        case RES_CHECK: return "final-check-failed";
        case RES_INVARIANT: return "step-invariant-failed";
        case RES_DEADLOCK: return "deadlock";
        case RES_LIVELOCK: return "livelock-or-step-horizon";
        case RES_DIVERGED: return "replay-diverged";
        default: return "internal";
    }
}

struct Shared {
    // input
    int prefix_len;
    int forced;  // 1: prefix is a forced thread-id schedule (one entry per decision, thread ids), used by model replay
    int use_dpoints;
    long horizon;
    unsigned char prefix[MAXP];
    // output
    int done;
    int result;
    int trace_len;
    unsigned char nopts[MAXP];
    unsigned char chosen[MAXP];
    unsigned char cur_enabled[MAXP];
    unsigned char chosen_tid[MAXP];
    long points;
    long decisions;
    unsigned long long outcome_hash;
    char obs[OBSCAP];
    // conflict locations (open addressing hash set of addresses); D = used by this pass, Dnew = found by runs
    uintptr_t D[NCONF];
    uintptr_t Dnew[NCONF];
    int dnew_count;
    // state hashing at decision points (optional)
    unsigned long long state_hash[1];
};

static Shared* S;

// ------------------------------------------------------------------------------------------------ child side
namespace {

enum TState { T_NEW, T_RUNNABLE, T_BLOCKED_MUTEX, T_BLOCKED_SPIN, T_DONE };

struct LogEnt {
    void* pc;
    uintptr_t addr;
    unsigned long long val;
    bool wrote;
};

struct VThread {
    pthread_t th;
    int go;  // futex word
    TState st;
    uintptr_t wait_obj;       // mutex / rwlock waited for
    int wait_mode;            // 0 mutex, 1 rdlock, 2 wrlock
    uintptr_t spin_addrs[8];
    int nspin;
    LogEnt log[32];
    int logn;                 // total entries appended
    uintptr_t pending_wake[4];
    int npending;
    bool yielded;
    std::string notes;
    char* stack_lo;
    char* stack_hi;
};

VThread T[VS_MAX_THREADS];
int NT = 0;
volatile int g_controlled = 0;
int g_cur = -1;
long g_points = 0;
int g_pos = 0;         // decision index
int g_rescues = 0;
int (*g_invariant)(std::string&) = nullptr;
__thread int tl_tid = -1;
__thread int tl_inrt = 0;

struct VMutex { uintptr_t addr; int owner; };
struct VRw { uintptr_t addr; int writer; int readers; unsigned char rd[VS_MAX_THREADS]; };
VMutex g_mutexes[256];
int g_nmutex = 0;
VRw g_rws[64];
int g_nrw = 0;

// per-execution access table for conflict detection
struct Acc { uintptr_t addr; unsigned char readers, writers; };
#define NACC (1 << 14)
Acc g_acc[NACC];

long sys_futex(int* uaddr, int op, int val) { return syscall(SYS_futex, uaddr, op, val, nullptr, nullptr, 0); }

void wake(int t) {
    __atomic_store_n(&T[t].go, 1, __ATOMIC_SEQ_CST);
    sys_futex(&T[t].go, FUTEX_WAKE, 1);
}
void sleep_self(int t) {
    while (__atomic_load_n(&T[t].go, __ATOMIC_SEQ_CST) == 0) sys_futex(&T[t].go, FUTEX_WAIT, 0);
    __atomic_store_n(&T[t].go, 0, __ATOMIC_SEQ_CST);
}

[[noreturn]] void finish(int result, const std::string& extra) {
    // called with the baton held (or from main after join)
    std::string obs;
    for (int i = 0; i < NT; i++) {
        obs += "T" + std::to_string(i) + ":" + T[i].notes + " ";
    }
    obs += extra;
    S->result = result;
    S->points = g_points;
    S->decisions = g_pos;
    S->trace_len = g_pos < MAXP ? g_pos : MAXP;
    unsigned long long h = 1469598103934665603ULL;
    for (char c : obs) { h ^= (unsigned char)c; h *= 1099511628211ULL; }
    S->outcome_hash = h;
    strncpy(S->obs, obs.c_str(), OBSCAP - 1);
    S->obs[OBSCAP - 1] = 0;
    S->done = 1;
    _exit(0);
}

bool in_D(uintptr_t a) {
    unsigned h = (unsigned)((a * 0x9E3779B97F4A7C15ULL) >> 48) & (NCONF - 1);
    for (int k = 0; k < 64; k++) {
        uintptr_t v = S->D[(h + k) & (NCONF - 1)];
        if (v == a) return true;
        if (v == 0) return false;
    }
    return false;
}
void add_set(uintptr_t* tab, uintptr_t a, int* count) {
    unsigned h = (unsigned)((a * 0x9E3779B97F4A7C15ULL) >> 48) & (NCONF - 1);
    for (int k = 0; k < 64; k++) {
        uintptr_t& v = tab[(h + k) & (NCONF - 1)];
        if (v == a) return;
        if (v == 0) { v = a; if (count) (*count)++; return; }
    }
}

void record_access(uintptr_t a, bool write) {
    unsigned h = (unsigned)(a >> 2) & (NACC - 1);   // neighbouring addresses share pages of the table
    for (int k = 0; k < 256; k++) {
        Acc& e = g_acc[(h + k) & (NACC - 1)];
        if (e.addr == a || e.addr == 0) {
            e.addr = a;
            unsigned char bit = (unsigned char)(1u << tl_tid);
            if (write) e.writers |= bit; else e.readers |= bit;
            unsigned char all = e.readers | e.writers;
            if (e.writers && (all & (all - 1))) {   // >= 2 threads, at least one writer
                if (!in_D(a)) add_set(S->Dnew, a, &S->dnew_count);
            }
            return;
        }
    }
    finish(RES_INTERNAL, "access table full");
}

bool enabled(int t) { return T[t].st == T_RUNNABLE; }

void wake_spinners(uintptr_t addr) {
    for (int t = 0; t < NT; t++) {
        if (T[t].st == T_BLOCKED_SPIN) {
            for (int k = 0; k < T[t].nspin; k++)
                if (T[t].spin_addrs[k] == addr) { T[t].st = T_RUNNABLE; break; }
        }
    }
    g_rescues = 0;
}

void flush_pending(int me) {
    for (int k = 0; k < T[me].npending; k++) wake_spinners(T[me].pending_wake[k]);
    T[me].npending = 0;
}

void run_invariant() {
    if (!g_invariant) return;
    std::string why;
    tl_inrt++;
    int r = g_invariant(why);
    tl_inrt--;
    if (r) finish(RES_INVARIANT, "INVARIANT: " + why);
}

// Decide who runs next; called by thread `me` holding the baton. `me_can_run`: me is still enabled.
void decide(int me) {
    for (;;) {
        int opts[VS_MAX_THREADS];
        int n = 0;
        bool me_en = (me >= 0 && enabled(me) && !T[me].yielded);
        if (me_en) opts[n++] = me;
        for (int t = 0; t < NT; t++)
            if (t != me && enabled(t)) opts[n++] = t;
        if (n == 0 && me >= 0 && enabled(me) && T[me].yielded) { opts[n++] = me; }
        if (n == 0) {
            bool all_done = true, any_spin = false;
            for (int t = 0; t < NT; t++) {
                if (T[t].st != T_DONE) all_done = false;
                if (T[t].st == T_BLOCKED_SPIN) any_spin = true;
            }
            if (all_done) return;   // last thread exiting; main continues after join
            if (any_spin && g_rescues < 2) {
                g_rescues++;
                for (int t = 0; t < NT; t++)
                    if (T[t].st == T_BLOCKED_SPIN) T[t].st = T_RUNNABLE;
                continue;
            }
            std::string w = "no enabled thread:";
            for (int t = 0; t < NT; t++) {
                char b[128];
                snprintf(b, sizeof b, " T%d=%s", t, T[t].st == T_DONE ? "done" : T[t].st == T_BLOCKED_MUTEX ? "blocked-on-lock" : T[t].st == T_BLOCKED_SPIN ? "spinning" : "?");
                w += b;
            }
            finish(RES_DEADLOCK, w);
        }
        int pick = 0;
        if (me >= 0) T[me].yielded = false;
        if (n >= 2) {
            int pos = g_pos++;
            if (pos >= MAXP) finish(RES_LIVELOCK, "decision horizon");
            int c = 0;
            if (pos < S->prefix_len) {
                c = S->prefix[pos];
                if (S->forced) {
                    // forced thread id: find it among the options
                    int want = c, idx = -1;
                    for (int k = 0; k < n; k++) if (opts[k] == want) idx = k;
                    if (idx < 0) finish(RES_DIVERGED, "forced thread not enabled at decision " + std::to_string(pos));
                    c = idx;
                } else if (c >= n) {
                    finish(RES_DIVERGED, "prefix choice out of range at decision " + std::to_string(pos));
                }
            }
            S->nopts[pos] = (unsigned char)n;
            S->chosen[pos] = (unsigned char)c;
            S->cur_enabled[pos] = me_en ? 1 : 0;
            S->chosen_tid[pos] = (unsigned char)opts[c];
            pick = c;
        } else if (S->forced && g_pos < S->prefix_len) {
            // single option: forced schedules list only real decisions
        }
        int next = opts[pick];
        if (next != me) {
            g_cur = next;
            wake(next);
            if (me >= 0 && T[me].st != T_DONE) {
                sleep_self(me);
            }
        }
        return;
    }
}

// spin detection on the thread's recent log
bool spinning(VThread& t) {
    for (int p = 1; p <= 4; p++) {
        if (t.logn < 3 * p) continue;
        bool ok = true;
        for (int i = 0; i < 3 * p && ok; i++) {
            const LogEnt& e = t.log[(t.logn - 1 - i) & 31];
            if (e.wrote) ok = false;
        }
        for (int i = 0; i < p && ok; i++) {
            const LogEnt& a = t.log[(t.logn - 1 - i) & 31];
            const LogEnt& b = t.log[(t.logn - 1 - i - p) & 31];
            const LogEnt& c = t.log[(t.logn - 1 - i - 2 * p) & 31];
            if (a.pc != b.pc || a.addr != b.addr || a.val != b.val || a.pc != c.pc || a.addr != c.addr || a.val != c.val) ok = false;
        }
        if (ok) {
            t.nspin = 0;
            for (int i = 0; i < p; i++) {
                uintptr_t a = t.log[(t.logn - 1 - i) & 31].addr;
                bool dup = false;
                for (int k = 0; k < t.nspin; k++) if (t.spin_addrs[k] == a) dup = true;
                if (!dup && t.nspin < 8) t.spin_addrs[t.nspin++] = a;
            }
            return true;
        }
    }
    return false;
}

// A scheduling point BEFORE an operation of thread me on addr. Returns when me holds the baton again.
void point(uintptr_t addr) {
    int me = tl_tid;
    flush_pending(me);
    run_invariant();
    if (++g_points > S->horizon) finish(RES_LIVELOCK, "step horizon exceeded");
    decide(me);
}

// Log the completed operation (for spin detection) and block if the thread is spinning.
void after_op(void* pc, uintptr_t addr, unsigned long long val, bool wrote) {
    int me = tl_tid;
    VThread& t = T[me];
    LogEnt& e = t.log[t.logn & 31];
    e.pc = pc; e.addr = addr; e.val = val; e.wrote = wrote;
    t.logn++;
    if (wrote) { wake_spinners(addr); return; }
    if (spinning(t)) {
        t.st = T_BLOCKED_SPIN;
        t.logn = 0;
        // a free switch: someone else must change one of the addresses
        decide(me);
        // resumed: we are RUNNABLE again
    }
}

inline bool hooks_on() { return g_controlled && tl_tid >= 0 && !tl_inrt; }

inline bool own_stack(uintptr_t a) {
    VThread& t = T[tl_tid];
    return a >= (uintptr_t)t.stack_lo && a < (uintptr_t)t.stack_hi;
}

unsigned long long peek(uintptr_t a, int sz) {
    switch (sz) {
        case 1: return *(volatile unsigned char*)a;
        case 2: return *(volatile unsigned short*)a;
        case 4: return *(volatile unsigned int*)a;
        case 8: return *(volatile unsigned long long*)a;
        default: return *(volatile unsigned long long*)a;
    }
}

void plain_access(void* p, int sz, bool write, bool is_volatile, void* pc) {
    uintptr_t a = (uintptr_t)p;
    if (own_stack(a)) return;
    tl_inrt++;
    if (!is_volatile) record_access(a, write);
    bool pt = is_volatile || (S->use_dpoints && in_D(a));
    if (pt) {
        point(a);
        if (write) {
            // the store itself happens after this hook returns: wake spinners at this thread's next hook
            VThread& t = T[tl_tid];
            if (t.npending < 4) t.pending_wake[t.npending++] = a;
            LogEnt& e = t.log[t.logn & 31];
            e.pc = pc; e.addr = a; e.val = 0; e.wrote = true;
            t.logn++;
            g_rescues = 0;
        } else {
            after_op(pc, a, peek(a, sz), false);
        }
    }
    tl_inrt--;
}

VMutex* vmutex(uintptr_t a) {
    for (int i = 0; i < g_nmutex; i++) if (g_mutexes[i].addr == a) return &g_mutexes[i];
    if (g_nmutex >= 256) return nullptr;
    g_mutexes[g_nmutex].addr = a;
    g_mutexes[g_nmutex].owner = -1;
    return &g_mutexes[g_nmutex++];
}
VRw* vrw(uintptr_t a) {
    for (int i = 0; i < g_nrw; i++) if (g_rws[i].addr == a) return &g_rws[i];
    if (g_nrw >= 64) return nullptr;
    VRw& r = g_rws[g_nrw++];
    r.addr = a; r.writer = -1; r.readers = 0; memset(r.rd, 0, sizeof r.rd);
    return &r;
}
void wake_waiters(uintptr_t obj) {
    for (int t = 0; t < NT; t++)
        if (T[t].st == T_BLOCKED_MUTEX && T[t].wait_obj == obj) T[t].st = T_RUNNABLE;
    g_rescues = 0;
}

void* thread_main(void* arg) {
    int me = (int)(intptr_t)arg;
    tl_tid = me;
    pthread_attr_t at;
    pthread_getattr_np(pthread_self(), &at);
    void* lo; size_t sz;
    pthread_attr_getstack(&at, &lo, &sz);
    pthread_attr_destroy(&at);
    T[me].stack_lo = (char*)lo;
    T[me].stack_hi = (char*)lo + sz;
    sleep_self(me);   // wait for the baton
    vs_thread(me);
    // thread exit
    tl_inrt++;
    flush_pending(me);
    run_invariant();
    T[me].st = T_DONE;
    decide(me);
    tl_inrt--;
    return nullptr;
}

alignas(4096) char g_stacks[VS_MAX_THREADS][1 << 20];

void child_run(int scenario) {
    {
        // all virtual threads on the CPU this child happens to run on: hand-offs become same-core context switches
        cpu_set_t set;
        CPU_ZERO(&set);
        int c = sched_getcpu();
        if (c >= 0) { CPU_SET(c, &set); sched_setaffinity(0, sizeof set, &set); }
    }
    alarm(S->horizon > 200000 ? 300 : 60);
    NT = vs_setup(scenario);
    if (NT < 1 || NT > VS_MAX_THREADS) { S->result = RES_INTERNAL; snprintf(S->obs, OBSCAP, "bad thread count %d", NT); S->done = 1; _exit(0); }
    for (int i = 0; i < NT; i++) { T[i].st = T_RUNNABLE; T[i].go = 0; T[i].logn = 0; T[i].npending = 0; T[i].yielded = false; }
    for (int i = 0; i < NT; i++) {
        pthread_attr_t at;
        pthread_attr_init(&at);
        pthread_attr_setstack(&at, g_stacks[i], sizeof g_stacks[i]);
        pthread_create(&T[i].th, &at, thread_main, (void*)(intptr_t)i);
    }
    g_controlled = 1;
    // initial decision: which thread starts (a free choice among all threads)
    tl_inrt++;
    decide(-1);
    tl_inrt--;
    for (int i = 0; i < NT; i++) pthread_join(T[i].th, nullptr);
    g_controlled = 0;
    std::string obs;
    int r = vs_check(obs);
    finish(r ? RES_CHECK : RES_OK, obs);
}

}  // namespace

// ------------------------------------------------------------------------------------------------ public helpers
namespace vs {
void set_step_invariant(int (*fn)(std::string&)) { g_invariant = fn; }
void note(const char* fmt, ...) {
    char b[512];
    va_list ap;
    va_start(ap, fmt);
    vsnprintf(b, sizeof b, fmt, ap);
    va_end(ap);
    if (tl_tid >= 0) { tl_inrt++; T[tl_tid].notes += b; tl_inrt--; }
}
void ghost_point() {
    if (!hooks_on()) return;
    tl_inrt++;
    point(0);
    tl_inrt--;
}
int self() { return tl_tid; }
long step() { return g_points; }
bool controlled() { return g_controlled != 0; }
}  // namespace vs

// ------------------------------------------------------------------------------------------------ hooks
#define RA __builtin_return_address(0)
extern "C" {
void __tsan_init() {}
void __tsan_func_entry(void*) {}
void __tsan_func_exit() {}
void __tsan_vptr_update(void**, void*) {}
void __tsan_vptr_read(void**) {}
#define PLAIN(N) \
    void __tsan_read##N(void* a) { if (hooks_on()) plain_access(a, N, false, false, RA); } \
    void __tsan_write##N(void* a) { if (hooks_on()) plain_access(a, N, true, false, RA); } \
    void __tsan_unaligned_read##N(void* a) { if (hooks_on()) plain_access(a, N, false, false, RA); } \
    void __tsan_unaligned_write##N(void* a) { if (hooks_on()) plain_access(a, N, true, false, RA); } \
    void __tsan_volatile_read##N(void* a) { if (hooks_on()) plain_access(a, N, false, true, RA); } \
    void __tsan_volatile_write##N(void* a) { if (hooks_on()) plain_access(a, N, true, true, RA); } \
    void __tsan_unaligned_volatile_read##N(void* a) { if (hooks_on()) plain_access(a, N, false, true, RA); } \
    void __tsan_unaligned_volatile_write##N(void* a) { if (hooks_on()) plain_access(a, N, true, true, RA); } \
    void __tsan_read##N##_pc(void* a, void*) { if (hooks_on()) plain_access(a, N, false, false, RA); } \
    void __tsan_write##N##_pc(void* a, void*) { if (hooks_on()) plain_access(a, N, true, false, RA); }
PLAIN(1) PLAIN(2) PLAIN(4) PLAIN(8) PLAIN(16)
void __tsan_read_range(void* a, unsigned long n) {
    if (!hooks_on()) return;
    for (unsigned long i = 0; i < n; i += 8) plain_access((char*)a + i, 8, false, false, RA);
}
void __tsan_write_range(void* a, unsigned long n) {
    if (!hooks_on()) return;
    for (unsigned long i = 0; i < n; i += 8) plain_access((char*)a + i, 8, true, false, RA);
}
void __tsan_read_range_pc(void* a, unsigned long n, void*) { __tsan_read_range(a, n); }
void __tsan_write_range_pc(void* a, unsigned long n, void*) { __tsan_write_range(a, n); }

// ---- atomics: the operation is performed inside the hook, after the scheduling point
#define ATOMIC(BITS, TY) \
    TY __tsan_atomic##BITS##_load(const volatile TY* a, int) { \
        if (!hooks_on()) return __atomic_load_n(a, __ATOMIC_SEQ_CST); \
        tl_inrt++; point((uintptr_t)a); TY v = __atomic_load_n(a, __ATOMIC_SEQ_CST); after_op(RA, (uintptr_t)a, (unsigned long long)v, false); tl_inrt--; return v; } \
    void __tsan_atomic##BITS##_store(volatile TY* a, TY v, int) { \
        if (!hooks_on()) { __atomic_store_n(a, v, __ATOMIC_SEQ_CST); return; } \
        tl_inrt++; point((uintptr_t)a); TY o = __atomic_load_n(a, __ATOMIC_SEQ_CST); __atomic_store_n(a, v, __ATOMIC_SEQ_CST); after_op(RA, (uintptr_t)a, (unsigned long long)v, o != v); tl_inrt--; } \
    TY __tsan_atomic##BITS##_exchange(volatile TY* a, TY v, int) { \
        if (!hooks_on()) return __atomic_exchange_n(a, v, __ATOMIC_SEQ_CST); \
        tl_inrt++; point((uintptr_t)a); TY o = __atomic_exchange_n(a, v, __ATOMIC_SEQ_CST); after_op(RA, (uintptr_t)a, (unsigned long long)o, o != v); tl_inrt--; return o; } \
    int __tsan_atomic##BITS##_compare_exchange_strong(volatile TY* a, TY* e, TY d, int, int) { \
        if (!hooks_on()) return __atomic_compare_exchange_n(a, e, d, 0, __ATOMIC_SEQ_CST, __ATOMIC_SEQ_CST); \
        tl_inrt++; point((uintptr_t)a); TY exp = *e; int ok = __atomic_compare_exchange_n(a, e, d, 0, __ATOMIC_SEQ_CST, __ATOMIC_SEQ_CST); \
        after_op(RA, (uintptr_t)a, (unsigned long long)*e ^ ((unsigned long long)exp << 1), ok && exp != d); tl_inrt--; return ok; } \
    int __tsan_atomic##BITS##_compare_exchange_weak(volatile TY* a, TY* e, TY d, int m1, int m2) { \
        if (!hooks_on()) return __atomic_compare_exchange_n(a, e, d, 0, __ATOMIC_SEQ_CST, __ATOMIC_SEQ_CST); \
        tl_inrt++; point((uintptr_t)a); TY exp = *e; int ok = __atomic_compare_exchange_n(a, e, d, 0, __ATOMIC_SEQ_CST, __ATOMIC_SEQ_CST); \
        after_op(RA, (uintptr_t)a, (unsigned long long)*e ^ ((unsigned long long)exp << 1), ok && exp != d); tl_inrt--; return ok; } \
    TY __tsan_atomic##BITS##_compare_exchange_val(volatile TY* a, TY e, TY d, int, int) { \
        if (!hooks_on()) { __atomic_compare_exchange_n(a, &e, d, 0, __ATOMIC_SEQ_CST, __ATOMIC_SEQ_CST); return e; } \
        tl_inrt++; point((uintptr_t)a); TY exp = e; int ok = __atomic_compare_exchange_n(a, &e, d, 0, __ATOMIC_SEQ_CST, __ATOMIC_SEQ_CST); \
        after_op(RA, (uintptr_t)a, (unsigned long long)e, ok && exp != d); tl_inrt--; return e; }
#define RMW(BITS, TY, NAME, BUILTIN) \
    TY __tsan_atomic##BITS##_##NAME(volatile TY* a, TY v, int) { \
        if (!hooks_on()) return BUILTIN(a, v, __ATOMIC_SEQ_CST); \
        tl_inrt++; point((uintptr_t)a); TY o = BUILTIN(a, v, __ATOMIC_SEQ_CST); TY n = __atomic_load_n(a, __ATOMIC_SEQ_CST); \
        after_op(RA, (uintptr_t)a, (unsigned long long)o, o != n); tl_inrt--; return o; }
#define ALLATOMIC(BITS, TY) ATOMIC(BITS, TY) RMW(BITS, TY, fetch_add, __atomic_fetch_add) RMW(BITS, TY, fetch_sub, __atomic_fetch_sub) \
    RMW(BITS, TY, fetch_and, __atomic_fetch_and) RMW(BITS, TY, fetch_or, __atomic_fetch_or) RMW(BITS, TY, fetch_xor, __atomic_fetch_xor) \
    RMW(BITS, TY, fetch_nand, __atomic_fetch_nand)
ALLATOMIC(8, unsigned char)
ALLATOMIC(16, unsigned short)
ALLATOMIC(32, unsigned int)
ALLATOMIC(64, unsigned long long)
void __tsan_atomic_thread_fence(int) {}
void __tsan_atomic_signal_fence(int) {}

// ---- libc locks (std::mutex, std::shared_mutex) and yields, interposed at link time
int pthread_mutex_lock(pthread_mutex_t* m) {
    if (!hooks_on()) return 0;
    tl_inrt++;
    VMutex* v = vmutex((uintptr_t)m);
    for (;;) {
        point((uintptr_t)m);
        if (v->owner == -1) { v->owner = tl_tid; break; }
        T[tl_tid].st = T_BLOCKED_MUTEX;
        T[tl_tid].wait_obj = (uintptr_t)m;
        decide(tl_tid);
    }
    T[tl_tid].logn = 0;
    tl_inrt--;
    return 0;
}
int pthread_mutex_trylock(pthread_mutex_t* m) {
    if (!hooks_on()) return 0;
    tl_inrt++;
    VMutex* v = vmutex((uintptr_t)m);
    point((uintptr_t)m);
    int r = EBUSY;
    if (v->owner == -1) { v->owner = tl_tid; r = 0; }
    after_op(RA, (uintptr_t)m, (unsigned long long)r, r == 0);
    tl_inrt--;
    return r;
}
int pthread_mutex_unlock(pthread_mutex_t* m) {
    if (!hooks_on()) return 0;
    tl_inrt++;
    VMutex* v = vmutex((uintptr_t)m);
    point((uintptr_t)m);
    v->owner = -1;
    wake_waiters((uintptr_t)m);
    wake_spinners((uintptr_t)m);
    T[tl_tid].logn = 0;
    tl_inrt--;
    return 0;
}
static int rw_acquire(pthread_rwlock_t* l, bool write, bool try_only) {
    if (!hooks_on()) return 0;
    tl_inrt++;
    VRw* v = vrw((uintptr_t)l);
    int r = 0;
    for (;;) {
        point((uintptr_t)l);
        bool can = write ? (v->writer == -1 && v->readers == 0) : (v->writer == -1);
        if (can) {
            if (write) v->writer = tl_tid; else { v->readers++; v->rd[tl_tid]++; }
            break;
        }
        if (try_only) { r = EBUSY; break; }
        T[tl_tid].st = T_BLOCKED_MUTEX;
        T[tl_tid].wait_obj = (uintptr_t)l;
        decide(tl_tid);
    }
    T[tl_tid].logn = 0;
    tl_inrt--;
    return r;
}
int pthread_rwlock_rdlock(pthread_rwlock_t* l) { return rw_acquire(l, false, false); }
int pthread_rwlock_wrlock(pthread_rwlock_t* l) { return rw_acquire(l, true, false); }
int pthread_rwlock_tryrdlock(pthread_rwlock_t* l) { return rw_acquire(l, false, true); }
int pthread_rwlock_trywrlock(pthread_rwlock_t* l) { return rw_acquire(l, true, true); }
int pthread_rwlock_unlock(pthread_rwlock_t* l) {
    if (!hooks_on()) return 0;
    tl_inrt++;
    VRw* v = vrw((uintptr_t)l);
    point((uintptr_t)l);
    if (v->writer == tl_tid) v->writer = -1;
    else if (v->rd[tl_tid] > 0) { v->rd[tl_tid]--; v->readers--; }
    wake_waiters((uintptr_t)l);
    T[tl_tid].logn = 0;
    tl_inrt--;
    return 0;
}
int sched_yield(void) {
    if (!hooks_on()) return 0;
    tl_inrt++;
    flush_pending(tl_tid);
    run_invariant();
    if (++g_points > S->horizon) finish(RES_LIVELOCK, "step horizon exceeded");
    T[tl_tid].yielded = true;
    decide(tl_tid);
    tl_inrt--;
    return 0;
}
// OpenMP identity (selects lanes / per-thread contexts in souffle's code)
static int g_omp_max = VS_MAX_THREADS;
int omp_get_thread_num(void) { return tl_tid >= 0 ? tl_tid : 0; }
int omp_get_max_threads(void) { return g_omp_max; }
int omp_get_num_threads(void) { return NT > 0 ? NT : 1; }
void omp_set_num_threads(int n) { g_omp_max = n; }
int omp_in_parallel(void) { return g_controlled; }
}  // extern "C"

// ------------------------------------------------------------------------------------------------ explorer (parent side)
struct RunOut {
    int status;   // 0 normal, >0 signal number, -1 no result
    int result;
};

static RunOut run_once(int scenario, const std::vector<unsigned char>& prefix, bool forced, long horizon) {
    S->prefix_len = (int)prefix.size();
    if (!prefix.empty()) memcpy(S->prefix, prefix.data(), prefix.size());
    S->forced = forced ? 1 : 0;
    S->horizon = horizon;
    S->done = 0;
    S->result = RES_INTERNAL;
    S->trace_len = 0;
    S->obs[0] = 0;
    pid_t pid = fork();
    if (pid == 0) {
        child_run(scenario);
        _exit(0);
    }
    int st = 0;
    waitpid(pid, &st, 0);
    RunOut o;
    if (WIFSIGNALED(st)) { o.status = WTERMSIG(st); o.result = -1; }
    else if (!S->done) { o.status = -1; o.result = -1; }
    else { o.status = 0; o.result = S->result; }
    return o;
}

static std::string json_escape(const std::string& s) {
    std::string o;
    for (unsigned char c : s) {
        if (c == '"' || c == '\\') { o += '\\'; o += (char)c; }
        else if (c == '\n') o += "\\n";
        else if (c < 32) { char b[8]; snprintf(b, sizeof b, "\\u%04x", c); o += b; }
        else o += (char)c;
    }
    return o;
}

static double now() {
    timespec ts;
    clock_gettime(CLOCK_MONOTONIC, &ts);
    return ts.tv_sec + ts.tv_nsec * 1e-9;
}

struct ExploreStats {
    long executions = 0, transitions = 0, decisions = 0;
    int bound_completed = -1;
    std::set<unsigned long long> outcomes;
    std::vector<std::string> sample_obs;
    bool violation = false;
    std::string vkind, vobs;
    std::vector<unsigned char> vschedule;   // choice indices
    std::vector<unsigned char> vtids;       // thread ids per decision
    bool capped = false;
    int passes = 0;
    int conflict_locs = 0;
    long pruned = 0;
};

static bool explore_bound(int scenario, int bound, long max_exec, double deadline, long horizon, ExploreStats& st) {
    // returns true if completed without violation
    std::vector<std::vector<unsigned char>> stack;
    stack.push_back({});
    while (!stack.empty()) {
        std::vector<unsigned char> prefix = std::move(stack.back());
        stack.pop_back();
        RunOut o = run_once(scenario, prefix, false, horizon);
        st.executions++;
        st.transitions += S->points;
        st.decisions += S->decisions;
        int n = S->trace_len;
        bool bad = false;
        std::string kind;
        if (o.status > 0) {
            if (o.status == SIGALRM) {
                // a timed-out deterministic schedule is re-run alone with a much longer limit before it is called a hang
                RunOut o2 = run_once(scenario, prefix, false, horizon * 20);
                if (o2.status == 0 && o2.result == RES_OK) { o = o2; n = S->trace_len; }
                else { bad = true; kind = "hang (no completion within time limit, also when re-run alone)"; }
            } else { bad = true; kind = std::string("fatal signal ") + strsignal(o.status); }
        } else if (o.status < 0) { bad = true; kind = "child ended without result"; }
        if (!bad && o.result == RES_LIVELOCK) {
            RunOut o2 = run_once(scenario, prefix, false, horizon * 10);
            if (o2.status == 0 && o2.result == RES_OK) { o = o2; n = S->trace_len; }
            else { bad = true; kind = result_name(RES_LIVELOCK); }
        }
        if (!bad && o.result == RES_DIVERGED) {
            fprintf(stderr, "vsched: replay of a prefix diverged (nondeterminism in the harness): %s\n", S->obs);
            exit(2);
        }
        if (!bad && o.result != RES_OK) { bad = true; kind = result_name(o.result); }
        if (bad) {
            // for crashes the trace in shared memory is whatever was recorded before the crash
            st.violation = true;
            st.vkind = kind;
            st.vobs = S->obs;
            st.vschedule.assign(S->chosen, S->chosen + std::min(n > 0 ? n : (int)S->decisions, MAXP));
            if (o.status != 0) {
                // crashed: trace_len was not stored; use recorded decisions up to the first unset slot
                int k = 0;
                while (k < MAXP && S->nopts[k] != 0) k++;
                st.vschedule.assign(S->chosen, S->chosen + k);
                st.vtids.assign(S->chosen_tid, S->chosen_tid + k);
            } else {
                st.vtids.assign(S->chosen_tid, S->chosen_tid + n);
            }
            return false;
        }
        st.outcomes.insert(S->outcome_hash);
        if (st.sample_obs.size() < 3) {
            std::string ob = S->obs;
            if (std::find(st.sample_obs.begin(), st.sample_obs.end(), ob) == st.sample_obs.end()) st.sample_obs.push_back(ob);
        }
        // expand alternatives
        int cost = 0;
        std::vector<int> cost_before(n + 1, 0);
        for (int i = 0; i < n; i++) {
            cost_before[i] = cost;
            if (S->cur_enabled[i] && S->chosen[i] != 0) cost++;
        }
        for (int i = n - 1; i >= (int)prefix.size(); i--) {
            int c = cost_before[i] + (S->cur_enabled[i] ? 1 : 0);
            if (c > bound) continue;
            for (int alt = S->nopts[i] - 1; alt >= 1; alt--) {
                std::vector<unsigned char> np(S->chosen, S->chosen + i);
                np.push_back((unsigned char)alt);
                stack.push_back(std::move(np));
            }
        }
        if ((max_exec > 0 && st.executions >= max_exec) || (deadline > 0 && now() > deadline)) {
            if (!stack.empty()) { st.capped = true; return true; }
        }
        // clear nopts markers for crash recovery of the next run
        memset(S->nopts, 0, (size_t)std::min(n + 1, MAXP));
    }
    return true;
}

static void merge_conflicts(int* total) {
    for (int i = 0; i < NCONF; i++)
        if (S->Dnew[i]) add_set(S->D, S->Dnew[i], total);
    memset(S->Dnew, 0, sizeof S->Dnew);
    S->dnew_count = 0;
}

static void print_result(int scenario, int bound, const ExploreStats& st, double secs) {
    printf("{\"scenario\": %d, \"desc\": \"%s\", \"bound_requested\": %d, \"bound_completed\": %d, \"executions\": %ld, \"transitions\": %ld, \"decisions\": %ld, "
           "\"distinct_outcomes\": %zu, \"passes\": %d, \"conflict_locations\": %d, \"capped\": %s, \"secs\": %.2f, \"samples\": [",
           scenario, json_escape(vs_describe(scenario)).c_str(), bound, st.bound_completed, st.executions, st.transitions, st.decisions, st.outcomes.size(),
           st.passes, st.conflict_locs, st.capped ? "true" : "false", secs);
    for (size_t i = 0; i < st.sample_obs.size(); i++) printf("%s\"%s\"", i ? ", " : "", json_escape(st.sample_obs[i]).c_str());
    printf("], \"violation\": ");
    if (!st.violation) printf("null");
    else {
        printf("{\"kind\": \"%s\", \"obs\": \"%s\", \"schedule\": [", json_escape(st.vkind).c_str(), json_escape(st.vobs).c_str());
        for (size_t i = 0; i < st.vschedule.size(); i++) printf("%s%d", i ? "," : "", st.vschedule[i]);
        printf("], \"threads\": [");
        for (size_t i = 0; i < st.vtids.size(); i++) printf("%s%d", i ? "," : "", st.vtids[i]);
        printf("]}");
    }
    printf("}\n");
    fflush(stdout);
}

static std::vector<unsigned char> parse_list(const char* s) {
    std::vector<unsigned char> v;
    while (*s) {
        while (*s == ',' || *s == ' ') s++;
        if (!*s) break;
        v.push_back((unsigned char)strtol(s, (char**)&s, 10));
    }
    return v;
}

#include <sys/personality.h>
int main(int argc, char** argv) {
    // identical address-space layout in every invocation (replays recompute the conflict-location set)
    {
        int pers = personality(0xffffffff);
        if (pers != -1 && !(pers & ADDR_NO_RANDOMIZE) && !getenv("VSCHED_NO_REEXEC")) {
            if (personality(pers | ADDR_NO_RANDOMIZE) != -1) {
                setenv("VSCHED_NO_REEXEC", "1", 1);
                execv("/proc/self/exe", argv);
            }
        }
    }
    S = (Shared*)mmap(nullptr, sizeof(Shared), PROT_READ | PROT_WRITE, MAP_SHARED | MAP_ANONYMOUS, -1, 0);
    if (S == MAP_FAILED) { perror("mmap"); return 2; }
    memset(S, 0, sizeof(Shared));
    int from = -1, to = -1, bound = 2, dpoints = 1;
    long max_exec = 0, horizon = 20000;
    double budget = 0;
    const char* replay = nullptr;
    bool forced = false, list = false;
    for (int i = 1; i < argc; i++) {
        std::string a = argv[i];
        if (a == "--list") list = true;
        else if (a == "--explore" && i + 1 < argc) { from = atoi(argv[++i]); to = from + 1; }
        else if (a == "--range" && i + 2 < argc) { from = atoi(argv[++i]); to = atoi(argv[++i]); }
        else if (a == "--bound" && i + 1 < argc) bound = atoi(argv[++i]);
        else if (a == "--max-exec" && i + 1 < argc) max_exec = atol(argv[++i]);
        else if (a == "--budget" && i + 1 < argc) budget = atof(argv[++i]);
        else if (a == "--horizon" && i + 1 < argc) horizon = atol(argv[++i]);
        else if (a == "--dpoints" && i + 1 < argc) dpoints = atoi(argv[++i]);
        else if (a == "--replay" && i + 1 < argc) { from = atoi(argv[++i]); to = from + 1; }
        else if (a == "--schedule" && i + 1 < argc) replay = argv[++i];
        else if (a == "--forced") forced = true;
        else { fprintf(stderr, "unknown argument %s\n", a.c_str()); return 2; }
    }
    if (list) {
        int n = vs_nscenarios();
        for (int s = 0; s < n; s++) printf("%d\t%s\n", s, vs_describe(s));
        return 0;
    }
    if (from < 0) { fprintf(stderr, "usage: harness --list | --explore S [--bound B] | --range A B | --replay S --schedule c0,c1,.. [--forced]\n"); return 2; }
    S->use_dpoints = dpoints;
    if (replay) {
        // replay one schedule (choice indices, or thread ids with --forced). To make choice indices meaningful the
        // conflict set must be the one of the exploring run: it is recomputed by running the default schedule passes first.
        std::vector<unsigned char> sched = parse_list(replay);
        if (!forced && dpoints) {
            // re-establish the conflict-location fixpoint exactly as exploration does (bound given on the command line)
            int total = 0;
            for (int pass = 0; pass < 6; pass++) {
                ExploreStats tmp;
                for (int b = 0; b <= bound; b++) if (!explore_bound(from, b, max_exec, 0, horizon, tmp) || tmp.violation) break;
                int before = total;
                merge_conflicts(&total);
                if (total == before) break;
                if (tmp.violation) break;
            }
        }
        RunOut o = run_once(from, sched, forced, horizon * 10);
        std::string kind = o.status > 0 ? std::string("fatal signal ") + strsignal(o.status) : o.status < 0 ? "no result" : result_name(o.result);
        printf("{\"replay\": true, \"result\": \"%s\", \"obs\": \"%s\", \"threads\": [", json_escape(kind).c_str(), json_escape(S->obs).c_str());
        for (int i = 0; i < S->trace_len; i++) printf("%s%d", i ? "," : "", S->chosen_tid[i]);
        printf("]}\n");
        return (o.status == 0 && o.result == RES_OK) ? 0 : 1;
    }
    int rc = 0;
    for (int s = from; s < to && s < vs_nscenarios(); s++) {
        double t0 = now();
        double deadline = budget > 0 ? t0 + budget : 0;
        ExploreStats st;
        memset(S->D, 0, sizeof S->D);
        memset(S->Dnew, 0, sizeof S->Dnew);
        S->dnew_count = 0;
        int total = 0;
        // passes until the set of conflict locations is stable; the result of the last pass is what counts
        for (int pass = 0; pass < 8; pass++) {
            ExploreStats cur;
            cur.passes = pass + 1;
            bool ok = true;
            for (int b = 0; b <= bound && ok; b++) {
                ok = explore_bound(s, b, max_exec, deadline, horizon, cur);
                if (ok && !cur.capped) cur.bound_completed = b;
                if (cur.capped) break;
            }
            int before = total;
            merge_conflicts(&total);
            cur.conflict_locs = total;
            st = cur;
            if (cur.violation) break;
            if (!dpoints || total == before) break;
            if (cur.capped) break;
        }
        print_result(s, bound, st, now() - t0);
        if (st.violation) rc = 1;
    }
    return rc;
}
