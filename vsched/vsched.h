// vsched: a serialising scheduler + preemption-bounded stateless explorer for real C++ code.
// A harness translation unit (compiled with -fsanitize=thread instrumentation but linked against vsched.cpp
// instead of libtsan) defines the functions below; vsched.cpp provides main().
#pragma once
#include <cstddef>
#include <cstdint>
#include <string>

extern "C" {
// number of scenarios this harness enumerates (all of them are explored)
int vs_nscenarios();
// one-line description of scenario s (static or thread-local buffer)
const char* vs_describe(int s);
// Build the shared state of scenario s from scratch (runs single-threaded, unscheduled). Returns the number of
// virtual threads (1..VS_MAX_THREADS).
int vs_setup(int s);
// Body of virtual thread tid (0-based) — runs under the scheduler.
void vs_thread(int tid);
// Runs single-threaded after all threads have finished. Returns 0 if the property holds for this execution,
// non-zero otherwise; writes a human-readable observation (results of the operations, final contents) to obs.
int vs_check(std::string& obs);
}

#define VS_MAX_THREADS 4

namespace vs {
// called by harness code (inside vs_thread) to check an invariant on EVERY step: registers a callback that the
// scheduler invokes (unscheduled) after every scheduling point; return non-zero = violation.
void set_step_invariant(int (*fn)(std::string& why));
// record a per-thread result string that becomes part of the observation/outcome
void note(const char* fmt, ...);
// explicit scheduling point with a label (for harness-level ghost steps)
void ghost_point();
// between quiet_begin() and quiet_end() the calling thread's memory accesses are neither scheduling points nor
// recorded: used by harness oracles to take an atomic snapshot of the shared state in the middle of an execution
void quiet_begin();
void quiet_end();
struct Quiet { Quiet() { quiet_begin(); } ~Quiet() { quiet_end(); } };
// id of the calling virtual thread (-1 outside the scheduled phase)
int self();
// monotone step counter of the current execution (number of scheduling points passed so far)
long step();
// true while the threads are running under the scheduler
bool controlled();
// forced-schedule support: the sequence of thread ids that actually ran at each point (filled during a run)
}
