"""Value domain and operator semantics of the reference model (independent of souffle's code).

number  -> python int in [-2^31, 2^31)
unsigned-> U (int subclass) in [0, 2^32)
float   -> F32 (IEEE single, identified by its bit pattern)
symbol  -> str (one char per byte)
record  -> tuple of values, or None for nil
ADT     -> AdtV(branch, args)
"""
import math, struct, re
from collections import namedtuple

MINI, MAXI = -2 ** 31, 2 ** 31 - 1
MAXU = 2 ** 32 - 1


class Undefined(Exception):
    """Evaluation left the defined value domain (signed overflow, division by zero, bad conversion)."""


class U(int):
    __slots__ = ()

    def __repr__(self):
        return "%du" % int(self)


class F32:
    __slots__ = ("bits",)

    def __init__(self, x):
        if isinstance(x, F32):
            self.bits = x.bits
        else:
            try:
                self.bits = struct.unpack("<I", struct.pack("<f", x))[0]
            except OverflowError:
                self.bits = 0x7F800000 if x > 0 else 0xFF800000

    @staticmethod
    def frombits(b):
        r = F32.__new__(F32)
        r.bits = b & 0xFFFFFFFF
        return r

    @property
    def f(self):
        return struct.unpack("<f", struct.pack("<I", self.bits))[0]

    def isnan(self):
        return (self.bits & 0x7F800000) == 0x7F800000 and (self.bits & 0x7FFFFF) != 0

    def __eq__(self, o):
        return isinstance(o, F32) and o.bits == self.bits

    def __hash__(self):
        return hash(("F32", self.bits))

    def __repr__(self):
        return "f%r" % self.f

    def __lt__(self, o):   # only for deterministic sorting of result sets
        return self.bits < o.bits


AdtV = namedtuple("AdtV", "branch args")


def kind(v):
    if isinstance(v, U):
        return "u"
    if isinstance(v, bool):
        raise TypeError("bool value")
    if isinstance(v, int):
        return "i"
    if isinstance(v, F32):
        return "f"
    if isinstance(v, str):
        return "s"
    if v is None or isinstance(v, tuple) and not isinstance(v, AdtV):
        return "r"
    if isinstance(v, AdtV):
        return "a"
    raise TypeError(type(v))


def wrap_i(x):
    x &= 0xFFFFFFFF
    return x - 2 ** 32 if x >= 2 ** 31 else x


def chk_i(x):
    if x < MINI or x > MAXI:
        raise Undefined("signed overflow")
    return x


def to_u(x):
    return U(x & 0xFFFFFFFF)


def c_div(a, b):
    q = abs(a) // abs(b)
    return q if (a < 0) == (b < 0) else -q


def c_mod(a, b):
    return a - b * c_div(a, b)


def f_exact(x):
    """round a python float (double) to f32"""
    return F32(x)


def _pow(a, b):
    try:
        return math.pow(a, b)
    except OverflowError:
        return math.inf
    except (ValueError, ZeroDivisionError):
        raise Undefined("pow domain")


def _trunc_to(x, lo, hi, what):
    if x != x or math.isinf(x):
        raise Undefined(what)
    t = math.trunc(x)
    if t < lo or t > hi:
        raise Undefined(what)
    return t


def cpp_stoi(s, base0=True):
    """std::stoi(str, &pos, base) as RamSignedFromString(str,nullptr,0) uses it: the longest valid prefix is
    converted and trailing text ignored; raises Undefined when nothing converts or out of range."""
    m = re.match(r"[ \t\n\v\f\r]*([+-]?)(0[bB][01]+|0[xX][0-9a-fA-F]+|[0-9]+)", s)
    if not m:
        raise Undefined("stoi")
    sign, body = m.group(1), m.group(2)
    if body[:2] in ("0b", "0B"):
        # souffle strips a leading 0b only when directly at the start of the string (with optional '-')
        if not (s.startswith("0b") or s.startswith("-0b")):
            v = 0  # stoi base 2 parses the "0" and stops at 'b'
        else:
            v = int(body[2:], 2)
    elif body[:2] in ("0x", "0X"):
        if not (s.startswith("0x") or s.startswith("-0x")):
            raise Undefined("grey: hex prefix after blank/plus")
        v = int(body[2:], 16)
    else:
        v = int(body, 10)
    if sign == "-":
        v = -v
    if v < MINI or v > MAXI:
        raise Undefined("stoi range")
    return v


def to_string_float(x):
    return "%f" % x.f


def apply_fn(op, a):
    """Apply intrinsic functor `op` to the list of argument values `a` (typed by python class)."""
    k = kind(a[0]) if a else None
    n = len(a)
    if op in ("+", "-", "*", "/") and n == 2:
        x, y = a
        if k == "s" and op == "+":
            raise Undefined("ssadd not modelled")
        if k == "i":
            if op == "+":
                return chk_i(x + y)
            if op == "-":
                return chk_i(x - y)
            if op == "*":
                return chk_i(x * y)
            if y == 0:
                raise Undefined("div0")
            return chk_i(c_div(x, y))
        if k == "u":
            if op == "+":
                return to_u(x + y)
            if op == "-":
                return to_u(x - y)
            if op == "*":
                return to_u(x * y)
            if y == 0:
                raise Undefined("div0")
            return U(x // y)
        if k == "f":
            xf, yf = x.f, y.f
            if op == "+":
                return F32(xf + yf)
            if op == "-":
                return F32(xf - yf)
            if op == "*":
                return F32(xf * yf)
            if yf == 0:
                if xf != xf or xf == 0:
                    raise Undefined("nan sign")   # 0/0: NaN sign is platform specific
                neg = (math.copysign(1, xf) < 0) != (math.copysign(1, yf) < 0)
                return F32(-math.inf if neg else math.inf)
            return F32(xf / yf)
    if op == "neg" or (op == "-" and n == 1):
        x = a[0]
        if k == "i":
            return chk_i(-x)
        if k == "f":
            return F32.frombits(x.bits ^ 0x80000000)
    if op == "%":
        x, y = a
        if y == 0:
            raise Undefined("mod0")
        if k == "i":
            if x == MINI and y == -1:
                raise Undefined("overflow")
            return c_mod(x, y)
        return U(x % y)
    if op in ("^", "**"):
        x, y = a
        if k == "i":
            return _trunc_to(_pow(float(x), float(y)), MINI, MAXI, "pow range")
        if k == "u":
            return U(_trunc_to(_pow(float(x), float(y)), 0, MAXU, "pow range"))
        r = _pow(x.f, y.f)
        rf = F32(r)
        if rf.f != r:
            raise Undefined("powf not exactly representable")
        if rf.isnan():
            raise Undefined("nan")
        return rf
    if op in ("band", "bor", "bxor", "&", "|"):
        x, y = a
        r = {"band": x & y, "&": x & y, "bor": x | y, "|": x | y, "bxor": x ^ y}[op]
        return wrap_i(r) if k == "i" else to_u(r)
    if op in ("bnot", "~"):
        x = a[0]
        return wrap_i(~x) if k == "i" else to_u(~x)
    if op in ("lnot", "!"):
        r = 0 if a[0] != 0 else 1
        return r if k == "i" else U(r)
    if op in ("land", "lor", "lxor", "&&", "||", "^^"):
        x, y = bool(a[0]), bool(a[1])
        r = {"land": x and y, "&&": x and y, "lor": x or y, "||": x or y, "lxor": x != y, "^^": x != y}[op]
        return int(r) if k == "i" else U(int(r))
    if op in ("bshl", "<<"):
        x, y = a
        r = ((x & 0xFFFFFFFF) << (y & 31)) & 0xFFFFFFFF
        return wrap_i(r) if k == "i" else U(r)
    if op in ("bshr", ">>"):
        x, y = a
        if k == "i":
            return x >> (y & 31)
        return U(x >> (y & 31))
    if op in ("bshru", ">>>"):
        x, y = a
        r = (x & 0xFFFFFFFF) >> (y & 31)
        return wrap_i(r) if k == "i" else U(r)
    if op in ("max", "min"):
        r = a[0]
        for y in a[1:]:
            if k == "f":
                if r.isnan() or y.isnan():
                    raise Undefined("nan in min/max")
                if r.f == y.f and r.bits != y.bits:
                    raise Undefined("signed zero in min/max")
                lt = (r.f < y.f) if op == "max" else (y.f < r.f)
            elif k == "s":
                lt = (r < y) if op == "max" else (r > y)
            else:
                lt = (r < y) if op == "max" else (y < r)
            if lt:
                r = y
        return r
    if op == "cat":
        return "".join(a)
    if op == "strlen":
        return len(a[0])
    if op == "substr":
        s, i, l = a
        if i < 0 or i > len(s):
            return ""
        return s[i:] if l < 0 else s[i:i + l]
    if op == "to_string":
        x = a[0]
        if k in ("i", "u"):
            return str(int(x))
        if k == "f":
            if x.isnan():
                raise Undefined("nan print")
            return to_string_float(x)
        return x
    if op == "to_number":
        x = a[0]
        if k == "s":
            return cpp_stoi(x)
        if k == "i":
            return x
        if k == "u":
            return wrap_i(x)
        return _trunc_to(x.f, MINI, MAXI, "f2i")
    if op == "to_unsigned":
        x = a[0]
        if k == "i":
            return to_u(x)
        if k == "u":
            return x
        if k == "f":
            if x.f != x.f or math.isinf(x.f):
                raise Undefined("f2u inf/nan")
            if x.f < 0 and math.trunc(x.f) != 0:
                raise Undefined("f2u negative")
            return U(_trunc_to(x.f, 0, MAXU, "f2u"))
        m = re.fullmatch(r"[0-9]+", x)
        if not m or int(x) > MAXU:
            raise Undefined("s2u grey")
        return U(int(x))
    if op == "to_float":
        x = a[0]
        if k in ("i", "u"):
            return F32(float(int(x)))
        if k == "f":
            return x
        m = re.fullmatch(r"-?[0-9]+(\.[0-9]+)?", x)
        if not m:
            raise Undefined("s2f grey")
        return F32(float(x))
    raise Undefined("unmodelled functor %s/%d on %s" % (op, n, k))


def range_values(args):
    """range(a,b[,step]) generator, following the documented semantics (half-open, direction by sign)."""
    k = kind(args[0])
    if k == "f":
        vs = [x.f for x in args]
    else:
        vs = [int(x) for x in args]
    a, b = vs[0], vs[1]
    if len(vs) == 3:
        s = vs[2]
    else:
        s = 1 if a <= b else -1
    out = []
    cap = 100000
    if s > 0:
        x = a
        while x < b:
            out.append(x)
            x = x + s
            if k == "f":
                x = F32(x).f
            if k == "i" and x > MAXI or k == "u" and x > MAXU:
                raise Undefined("range overflow")
            if len(out) > cap:
                raise Undefined("range too long")
    elif s < 0:
        if k == "u":
            raise Undefined("negative unsigned step")
        x = a
        while b < x:
            out.append(x)
            x = x + s
            if k == "f":
                x = F32(x).f
            if k == "i" and x < MINI:
                raise Undefined("range overflow")
            if len(out) > cap:
                raise Undefined("range too long")
    elif a != b:
        out.append(a)
    if k == "u" and len(vs) == 2 and a > b:
        # descending unsigned range without step
        out = list(range(a, b, -1))
    if k == "i":
        return out
    if k == "u":
        return [U(x) for x in out]
    return [F32(x) for x in out]


def compare(op, x, y):
    k = kind(x)
    if k == "f":
        xf, yf = x.f, y.f
        if op == "=":
            return xf == yf
        if op == "!=":
            return xf != yf
    else:
        if op == "=":
            return x == y
        if op == "!=":
            return x != y
        if k in ("r", "a"):
            raise Undefined("ordering on records")
        xf, yf = x, y
    if op == "<":
        return xf < yf
    if op == "<=":
        return xf <= yf
    if op == ">":
        return xf > yf
    if op == ">=":
        return xf >= yf
    raise ValueError(op)


# ------------------------------------------------------------------ text forms (fact files / csv output)

def fmt_float_out(x):
    """Text form for fact files: shortest repr that round-trips through f32."""
    f = x.f
    if f != f:
        return "nan"
    if math.isinf(f):
        return "inf" if f > 0 else "-inf"
    return "%.9g" % f


def to_text(v):
    k = kind(v)
    if k in ("i", "u"):
        return str(int(v))
    if k == "f":
        return fmt_float_out(v)
    if k == "s":
        return v
    if k == "r":
        if v is None:
            return "nil"
        return "[" + ", ".join(to_text(x) for x in v) + "]"
    if k == "a":
        if not v.args:
            return "$" + v.branch
        return "$" + v.branch + "(" + ", ".join(to_text(x) for x in v.args) + ")"


class ParseError(Exception):
    pass


def parse_value(text, ty, typeinfo):
    """Parse souffle's printed form of a value of declared type ty."""
    v, rest = _parse_val(text, ty, typeinfo, top=True)
    if rest.strip() != "":
        raise ParseError("trailing %r in %r" % (rest, text))
    return v


def base_type(ty, typeinfo):
    seen = 0
    while ty in typeinfo and typeinfo[ty][0] == "alias" and seen < 20:
        ty = typeinfo[ty][1]
        seen += 1
    return ty


_num_re = re.compile(r"\s*(-?[0-9]+)")
_flt_re = re.compile(r"\s*(-?(?:inf|nan|[0-9.]+(?:e[-+]?[0-9]+)?))")


def _parse_val(text, ty, typeinfo, top=False):
    ty = base_type(ty, typeinfo)
    if ty == "number":
        m = _num_re.match(text)
        if not m:
            raise ParseError("number expected in %r" % text)
        return int(m.group(1)), text[m.end():]
    if ty == "unsigned":
        m = _num_re.match(text)
        if not m:
            raise ParseError("unsigned expected in %r" % text)
        return U(int(m.group(1))), text[m.end():]
    if ty == "float":
        m = _flt_re.match(text)
        if not m:
            raise ParseError("float expected in %r" % text)
        return F32(float(m.group(1))), text[m.end():]
    if ty == "symbol":
        if top:
            return text, ""
        # nested symbol: read up to the next , ] or )  (generators avoid those characters in nested symbols)
        m = re.match(r"\s*([^,\]\)]*)", text)
        return m.group(1), text[m.end():]
    info = typeinfo.get(ty)
    if info is None:
        raise ParseError("unknown type " + ty)
    if info[0] == "record":
        t = text.lstrip()
        if t.startswith("nil"):
            return None, t[3:]
        if not t.startswith("["):
            raise ParseError("record expected in %r" % text)
        t = t[1:]
        vals = []
        for i, ft in enumerate(info[1]):
            if i:
                t = t.lstrip()
                if not t.startswith(","):
                    raise ParseError("comma expected in %r" % t)
                t = t[1:]
            v, t = _parse_val(t, ft, typeinfo)
            vals.append(v)
        t = t.lstrip()
        if not t.startswith("]"):
            raise ParseError("] expected in %r" % t)
        return tuple(vals), t[1:]
    if info[0] == "adt":
        t = text.lstrip()
        m = re.match(r"\$([A-Za-z_][A-Za-z_0-9]*)", t)
        if not m:
            raise ParseError("adt expected in %r" % text)
        br = m.group(1)
        t = t[m.end():]
        fts = dict(info[1]).get(br)
        if fts is None:
            raise ParseError("unknown branch " + br)
        vals = []
        if t.startswith("("):
            t = t[1:]
            for i, ft in enumerate(fts):
                if i:
                    t = t.lstrip()
                    if not t.startswith(","):
                        raise ParseError("comma expected in %r" % t)
                    t = t[1:]
                v, t = _parse_val(t, ft, typeinfo)
                vals.append(v)
            t = t.lstrip()
            if not t.startswith(")"):
                raise ParseError(") expected")
            t = t[1:]
        elif fts:
            raise ParseError("adt args expected")
        return AdtV(br, tuple(vals)), t
    raise ParseError("cannot parse type " + ty)
