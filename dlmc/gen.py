"""Bounded-exhaustive program generators (families).  Every family enumerates ALL members up to its size
bound, simplest first, after canonicalisation (variables renamed by first occurrence)."""
import itertools
from .dl import *
from .vals import U, F32
from . import ref


class Case:
    """One program under test: a small Program whose IDB relation names carry a unique suffix, so that many
    cases can be merged into one batch program."""
    __slots__ = ("cid", "family", "prog", "desc", "tags", "edb", "ref_prog", "ref_map")

    def __init__(self, cid, family, prog, desc, tags=(), edb=None, ref_prog=None, ref_map=None):
        self.cid, self.family, self.prog, self.desc, self.tags = cid, family, prog, desc, tuple(tags)
        self.edb = edb     # optional fixed database (dict rel -> tuples); None: use the schema's DB enumeration
        self.ref_prog = ref_prog   # program the reference model evaluates (default: prog itself)
        self.ref_map = ref_map     # output relation name of prog -> relation name in ref_prog

    def outputs(self):
        return [n for n, r in self.prog.rels.items() if r.is_output]


# ------------------------------------------------------------------ static well-formedness (generator side)

def grounded(heads, body):
    """Static groundedness: is there an evaluation order binding every variable through positive atoms /
    equalities before it is needed?  Mirrors what the reference solver can evaluate."""
    for conj in ref.dnf(body):
        bound = set()
        todo = list(conj)
        outer = ref.outer_vars_of(heads, conj)
        progress = True
        while todo and progress:
            progress = False
            for l in list(todo):
                c = l.__class__
                if c is Atom:
                    patv = set()
                    ok = True
                    for a in l.args:
                        if ref.is_pattern(a):
                            patv.update(vars_of(a))
                    for a in l.args:
                        if not ref.is_pattern(a):
                            for s in subterms(a):
                                if s.__class__ is Var and s.name not in bound and s.name not in patv:
                                    ok = False
                                if s.__class__ is Anon:
                                    ok = False
                                if s.__class__ is Agg:
                                    if any(v not in bound for v in ref.agg_outer_vars(s, outer)):
                                        ok = False
                    if ok:
                        bound.update(patv)
                        todo.remove(l)
                        progress = True
                elif c is Neg:
                    if all(v in bound for v in vars_of(l.atom)):
                        todo.remove(l)
                        progress = True
                elif c is Cmp:
                    def ev_ok(t):
                        for s in subterms(t):
                            if s.__class__ is Var and s.name not in bound:
                                return False
                            if s.__class__ is Anon:
                                return False
                            if s.__class__ is Agg and any(v not in bound for v in ref.agg_outer_vars(s, outer)):
                                return False
                        return True
                    lg, rg = ev_ok(l.lhs), ev_ok(l.rhs)
                    if lg and rg:
                        todo.remove(l)
                        progress = True
                    elif l.op == "=" and rg and ref.is_pattern(l.lhs):
                        bound.update(vars_of(l.lhs))
                        todo.remove(l)
                        progress = True
                    elif l.op == "=" and lg and ref.is_pattern(l.rhs):
                        bound.update(vars_of(l.rhs))
                        todo.remove(l)
                        progress = True
                elif c in (Match, Contains, BoolLit):
                    if all(v in bound for v in vars_of(l)):
                        todo.remove(l)
                        progress = True
        if todo:
            return False
        for h in heads:
            for v in vars_of(h):
                if v not in bound:
                    return False
    return True


def canonical_vars(heads, body, names=("x", "y", "z", "w", "v", "u")):
    """True iff variables are named in order of first occurrence (head first, then body left to right)."""
    seen = []
    for t in list(heads) + list(body):
        for v in vars_of(t, True):
            if v not in seen:
                seen.append(v)
    return seen == list(names[:len(seen)])


# ------------------------------------------------------------------ schema shared by the relational families

def core_schema(prog, suffix, base_p=True, base_q=True, quals_p=(), quals_q=()):
    prog.rel("a", [("x", "number")], is_input=True)
    prog.rel("e", [("x", "number"), ("y", "number")], is_input=True)
    p = "p" + suffix
    q = "q" + suffix
    prog.rel(p, [("x", "number"), ("y", "number")], quals=quals_p, is_output=True)
    prog.rel(q, [("x", "number")], quals=quals_q, is_output=True)
    if base_p:
        prog.rules.append(Rule([Atom(p, [Var("x"), Var("y")])], [Atom("e", [Var("x"), Var("y")])], None))
    if base_q:
        prog.rules.append(Rule([Atom(q, [Var("x")])], [Atom("a", [Var("x")])], None))
    return p, q


def core_literals(p, q, terms, consts, cmp_ops, negs=True):
    """The literal alphabet of the core family."""
    T = [Var(v) for v in terms] + [Num(c) for c in consts] + [Anon()]
    TV = [Var(v) for v in terms] + [Num(c) for c in consts]
    lits = []
    for t in T:
        lits.append(Atom("a", [t]))
        lits.append(Atom(q, [t]))
    for t in T:
        for u in T:
            lits.append(Atom("e", [t, u]))
            lits.append(Atom(p, [t, u]))
    pos = list(lits)
    if negs:
        for l in pos:
            lits.append(Neg(l))
    for op in cmp_ops:
        for t in TV:
            for u in TV:
                if t.__class__ is Num and u.__class__ is Num:
                    continue
                if t == u:
                    continue
                if op in ("=", "!=") and repr(t) > repr(u):
                    continue   # symmetric operators: one orientation only
                lits.append(Cmp(op, t, u))
    return lits


def lit_weight(l):
    return 0 if l.__class__ is Atom else (1 if l.__class__ is Neg else 2)


def enum_core(max_body=2, terms=("x", "y", "z"), consts=(0,), cmp_ops=("=", "!=", "<"), heads=("p", "q"),
              bases=((True, True),), max_atoms=None, require_atom_first=True):
    """All rules-under-test of the core family: head in {p(t,u), q(t)}, body a sequence of <= max_body
    literals.  Body ORDER is significant (join order / SIPS depend on it) but constraint and negation
    literals are placed after the atoms in a fixed order (their position is irrelevant to the translator,
    which hoists them), so the body is: a sequence of positive atoms (ordered) followed by a SET of
    negations and constraints."""
    out = []
    n = 0
    for (bp, bq) in bases:
        P = Program()
        p, q = core_schema(P, "", bp, bq)
        lits = core_literals(p, q, terms, consts, cmp_ops)
        atoms = [l for l in lits if l.__class__ is Atom]
        others = [l for l in lits if l.__class__ is not Atom]
        HT = [Var(v) for v in terms] + [Num(c) for c in consts]
        head_atoms = []
        if "p" in heads:
            head_atoms += [Atom(p, [t, u]) for t in HT for u in HT]
        if "q" in heads:
            head_atoms += [Atom(q, [t]) for t in HT]
        for nb in range(1, max_body + 1):
            for na in range(1, nb + 1):
                if max_atoms is not None and na > max_atoms:
                    continue
                no = nb - na
                for aseq in itertools.product(atoms, repeat=na):
                    for oset in itertools.combinations(others, no):
                        body = list(aseq) + list(oset)
                        for h in head_atoms:
                            if not canonical_vars([h], body):
                                continue
                            if not grounded([h], body):
                                continue
                            out.append((bp, bq, h, tuple(body)))
    return out


def make_core_case(cid, spec, quals_p=(), quals_q=(), family="core"):
    bp, bq, h, body = spec
    suffix = "_%d" % cid
    P = Program()
    p, q = core_schema(P, suffix, bp, bq, quals_p, quals_q)
    m = {"rel:p": p, "rel:q": q}
    r = rename(Rule([h], list(body), None), m)
    P.rules.append(r)
    try:
        ref.stratify(P)
    except ref.NotStratifiable:
        return None
    return Case(cid, family, P, show(r) + (" [base p]" if bp else "") + (" [base q]" if bq else ""))


def all_dbs_core(n=2, max_e=None):
    """All instances of a/1 and e/2 over {0..n-1} (optionally at most max_e tuples in e)."""
    dom = list(range(n))
    a_sub = []
    for k in range(len(dom) + 1):
        a_sub += [tuple((x,) for x in c) for c in itertools.combinations(dom, k)]
    pairs = [(x, y) for x in dom for y in dom]
    e_sub = []
    for k in range(len(pairs) + 1):
        if max_e is not None and k > max_e:
            break
        e_sub += list(itertools.combinations(pairs, k))
    return [{"a": a, "e": e} for a in a_sub for e in e_sub]


def dbs_core_quick():
    """Quick-tier database enumeration for the a/1, e/2 schema: ALL databases over {0,1} with |e| <= 1
    (20 instances) plus a fixed adversarial list over {0,1,2} (chain, cycle, full, diamond, self-loops)."""
    out = [d for d in all_dbs_core(2, max_e=1)]
    rich = [
        {"a": ((0,), (1,)), "e": ((0, 0), (0, 1), (1, 0), (1, 1))},
        {"a": ((0,),), "e": ((0, 1), (1, 2))},
        {"a": ((1,), (2,)), "e": ((0, 1), (1, 2), (2, 0))},
        {"a": ((0,), (2,)), "e": ((0, 1), (0, 2), (1, 0), (2, 2))},
        {"a": ((1,),), "e": ((0, 1), (1, 0))},
        {"a": ((0,), (1,), (2,)), "e": ((1, 1), (1, 2), (2, 1), (0, 0))},
    ]
    return out + rich


def dbs_core_thorough():
    """All 64 databases over {0,1} plus all databases over {0,1,2} with |e| <= 2 that are not already
    databases over {0,1}, plus the adversarial list."""
    out = all_dbs_core(2)
    seen = {(d["a"], d["e"]) for d in out}
    for d in all_dbs_core(3, max_e=2) + dbs_core_quick():
        k = (d["a"], d["e"])
        if k not in seen:
            seen.add(k)
            out.append(d)
    return out
