"""Builds /verif/build/hooked/souffle: the normal souffle link with ONE object replaced - ram/transform/Transformer.cpp
compiled with -DSOUFFLE_VERIF_HOOKS (honours SOUFFLE_VERIF_SKIP_RAM).  Rebuilt whenever the content of libsouffle.a or of that source file changes."""
import os, shlex, subprocess
from .common import *

HOOKED_DIR = os.path.join(VBUILD, "hooked")
HOOKED = os.path.join(HOOKED_DIR, "souffle")


def ninja_commands(target):
    r = subprocess.run(["ninja", "-C", BUILD, "-t", "commands", target], stdout=subprocess.PIPE, text=True)
    return [l for l in r.stdout.splitlines() if l.strip()]


def build_hooked():
    vbuild(("souffle",))
    os.makedirs(HOOKED_DIR, exist_ok=True)
    lib = os.path.join(BUILD, "src", "libsouffle.a")
    with Lock("hooked"):
        # keyed by the CONTENT of the archive and of the hook's translation unit (never by timestamps: the tree may have been
        # restored, or be a different tree mounted at the same path)
        import hashlib
        hsh = hashlib.blake2b(digest_size=12)
        for fn in (lib, os.path.join(REPO, "src", "ram", "transform", "Transformer.cpp")):
            with open(fn, "rb") as f:
                while True:
                    blk = f.read(1 << 22)
                    if not blk:
                        break
                    hsh.update(blk)
        stamp = os.path.join(HOOKED_DIR, "key")
        key = hsh.hexdigest()
        if os.path.exists(HOOKED) and os.path.exists(stamp) and open(stamp).read().strip() == key:
            return HOOKED
        if os.path.exists(stamp):
            os.remove(stamp)
        cmds = ninja_commands("src/CMakeFiles/libsouffle.dir/ram/transform/Transformer.cpp.o")
        cc = [c for c in cmds if "Transformer.cpp.o" in c and " -c " in c][-1]
        obj = os.path.join(HOOKED_DIR, "Transformer.hook.o")
        parts = shlex.split(cc)
        # replace output and dependency file arguments, add the guard, drop -g
        out = []
        skip = 0
        for i, p in enumerate(parts):
            if skip:
                skip -= 1
                continue
            if p in ("-o", "-MF", "-MT"):
                skip = 1
                continue
            if p in ("-MD", "-g"):
                continue
            out.append(p)
        out += ["-DSOUFFLE_VERIF_HOOKS", "-o", obj]
        r = subprocess.run(out, cwd=BUILD, stdout=subprocess.PIPE, stderr=subprocess.STDOUT, text=True)
        if r.returncode != 0:
            raise CheckError("hooked Transformer.cpp does not compile:\n" + r.stdout[-2000:])
        link = [c for c in ninja_commands("src/souffle") if " -o src/souffle " in c][-1]
        # the link rule is a chain ': && <link> && <post-build copies> && :' - keep the link step only
        link = [seg for seg in link.split(" && ") if " -o src/souffle " in (" " + seg + " ")][0]
        lp = shlex.split(link)
        new = []
        i = 0
        while i < len(lp):
            p = lp[i]
            if p == "-o":
                new += ["-o", HOOKED]
                i += 2
                continue
            if p == "src/libsouffle.a" or p.endswith("/libsouffle.a"):
                new += [obj, p]      # the hooked object is found first, the archive member is then not pulled in
                i += 1
                continue
            if p == "-g":
                i += 1
                continue
            new.append(p)
            i += 1
        new.append("-Wl,--strip-debug")
        r = subprocess.run(new, cwd=BUILD, stdout=subprocess.PIPE, stderr=subprocess.STDOUT, text=True)
        if r.returncode != 0:
            raise CheckError("hooked souffle does not link:\n" + r.stdout[-2000:])
        with open(stamp, "w") as f:
            f.write(key)
    return HOOKED
