"""Runner: execute souffle (interpreter / compiled) on generated programs and read typed results back."""
import os, subprocess, json, shutil, glob, hashlib
from .common import *
from .vals import parse_value, to_text, ParseError
from .dl import Program, Rel

INCLUDE = os.path.join(REPO, "src", "include")
CXX = "g++"
CXXFLAGS = ["-std=c++17", "-O0", "-fopenmp", "-w", "-DUSE_LIBZ", "-DUSE_SQLITE", "-I" + INCLUDE]
LDFLAGS = ["-ldl", "-lsqlite3", "-lz", "-lpthread"]


def write_facts(facts_dir, rel, tuples, delim="\t"):
    os.makedirs(facts_dir, exist_ok=True)
    with open(os.path.join(facts_dir, rel + ".facts"), "w", encoding="latin-1", newline="") as f:
        for t in tuples:
            f.write(delim.join(to_text(v) for v in t) + "\n")


def read_relation(path, rel, typeinfo, delim="\t"):
    """Returns (set of typed tuples, number of duplicate lines). rel: Rel."""
    types = rel.types()
    out = set()
    dups = 0
    if not os.path.exists(path):
        raise ParseError("missing output file " + path)
    with open(path, encoding="latin-1", newline="") as f:
        data = f.read()
    if data == "":
        return out, 0
    lines = data.split("\n")
    if lines and lines[-1] == "":
        lines.pop()
    for line in lines:
        if len(types) == 0:
            # nullary relation prints "()"
            t = ()
        else:
            cols = line.split(delim)
            if len(cols) != len(types):
                raise ParseError("column count %d != %d in %r of %s" % (len(cols), len(types), line, path))
            t = tuple(parse_value(c, ty, typeinfo) for c, ty in zip(cols, types))
        if t in out:
            dups += 1
        out.add(t)
    return out, dups


def souffle_cmd(dl, facts_dir=None, out_dir=None, jobs=None, extra=()):
    cmd = [SOUFFLE]
    if facts_dir:
        cmd += ["-F", facts_dir]
    if out_dir:
        cmd += ["-D", out_dir]
    if jobs:
        cmd += ["-j", str(jobs)]
    cmd += list(extra)
    cmd.append(dl)
    return cmd


def run_interp(dl, facts_dir, out_dir, jobs=None, extra=(), timeout=60, env=None):
    os.makedirs(out_dir, exist_ok=True)
    rc, so, se = sh(souffle_cmd(dl, facts_dir, out_dir, jobs, extra), timeout=timeout, env=env)
    if rc is None:
        # re-run alone with 10x the limit before anything is concluded
        rc, so, se = sh(souffle_cmd(dl, facts_dir, out_dir, jobs, extra), timeout=timeout * 10, env=env)
    return rc, so, se


def cxx_kind():
    """Compiler for generated code: clang++ (default: ~2x faster at -O0 with its pch) or g++ (VERIF_CXX=g++)."""
    return os.environ.get("VERIF_CXX", "clang++")


def _headers_fingerprint():
    h = hashlib.sha1()
    items = []
    for root, _, files in os.walk(INCLUDE):
        for fn in files:
            p = os.path.join(root, fn)
            try:
                st = os.stat(p)
                items.append((os.path.relpath(p, INCLUDE), st.st_mtime_ns, st.st_size))
            except OSError:
                pass
    for it in sorted(items):
        h.update(repr(it).encode())
    return h.hexdigest()[:16]


def ensure_pch():
    """Precompiled header for souffle/CompiledSouffle.h built from the working tree's headers.  The pch lives in a
    directory named after a fingerprint of (path, mtime, size) of every header under src/include, so a pch that
    does not belong to the current tree (edited header, restored sandbox copy) is never used."""
    cxx = cxx_kind()
    fp = _headers_fingerprint()
    base = os.path.join(VBUILD, "pch-" + cxx.replace("+", "x"))
    pch_dir = os.path.join(base, fp)
    hdr = os.path.join(pch_dir, "vpch.h")
    gch = hdr + (".gch" if cxx == "g++" else ".pch")
    with Lock("pch"):
        if os.path.exists(gch) and os.path.exists(gch + ".ok"):
            return hdr
        # drop pchs of other fingerprints (disk space)
        if os.path.isdir(base):
            for d in os.listdir(base):
                if d != fp:
                    shutil.rmtree(os.path.join(base, d), ignore_errors=True)
        os.makedirs(pch_dir, exist_ok=True)
        with open(hdr, "w") as f:
            f.write('#include "souffle/CompiledSouffle.h"\n#include "souffle/SignalHandler.h"\n#include "souffle/SouffleInterface.h"\n#include "souffle/datastructure/BTreeDelete.h"\n#include "souffle/io/IOSystem.h"\n#include <any>\n')
        r = subprocess.run([cxx, *CXXFLAGS, "-x", "c++-header", hdr, "-o", gch],
                           stdout=subprocess.PIPE, stderr=subprocess.STDOUT, text=True)
        if r.returncode != 0:
            raise CheckError("pch build failed:\n" + r.stdout[-3000:])
        open(gch + ".ok", "w").close()
    return hdr


def pch_flags():
    hdr = ensure_pch()
    if cxx_kind() == "g++":
        return ["-include", hdr]
    return ["-include-pch", hdr + ".pch"]


def compile_cpp(cpp_files, exe, extra_flags=(), use_pch=True, timeout=1800):
    cmd = [cxx_kind(), *CXXFLAGS]
    if use_pch:
        cmd += pch_flags()
    cmd += list(extra_flags) + list(cpp_files) + ["-o", exe] + LDFLAGS
    rc, so, se = sh(cmd, timeout=timeout)
    return rc, so + se


def _cc_one(args):
    cmd, = args
    rc, so, se = sh(cmd, timeout=1800)
    return rc, so + se


def compile_many(cpp_files, exe, extra_flags=(), jobs=None):
    """Compile translation units separately (in parallel, with the pch) and link."""
    from concurrent.futures import ThreadPoolExecutor
    pf = pch_flags()
    objs = []
    cmds = []
    for f in cpp_files:
        o = f[:-4] + ".o"
        objs.append(o)
        cmds.append(([cxx_kind(), *CXXFLAGS, *pf, *extra_flags, "-c", f, "-o", o],))
    with ThreadPoolExecutor(max_workers=jobs or NCPU) as ex:
        res = list(ex.map(_cc_one, cmds))
    for rc, out in res:
        if rc != 0:
            return rc, out
    rc, so, se = sh([cxx_kind(), "-fopenmp", *objs, "-o", exe, *LDFLAGS], timeout=1800)
    return rc, so + se


def generate_cpp(dl, cpp_out, extra=(), multi=False, timeout=300, souffle_bin=None):
    """souffle -g (single file) or -G (directory of files)."""
    sb = souffle_bin or SOUFFLE
    if multi:
        shutil.rmtree(cpp_out, ignore_errors=True)
        cmd = [sb, "--no-preprocessor", "-w", "-G", cpp_out, *extra, dl]
    else:
        cmd = [sb, "--no-preprocessor", "-w", "-g", cpp_out, *extra, dl]
    return sh(cmd, timeout=timeout)


def build_compiled(dl, workdir, name="prog", extra=(), multi=False, cxx_extra=(), souffle_bin=None):
    """Generate C++ for dl and compile it against the working tree's headers. Returns exe path or raises."""
    os.makedirs(workdir, exist_ok=True)
    exe = os.path.join(workdir, name)
    if multi:
        d = os.path.join(workdir, name + "_src")
        rc, so, se = generate_cpp(dl, d, extra, multi=True, souffle_bin=souffle_bin)
        if rc != 0:
            raise GenError("souffle -G failed rc=%s: %s" % (rc, se[-2000:]))
        files = sorted(glob.glob(os.path.join(d, "*.cpp")))
        rc, out = compile_many(files, exe, ["-I" + d, *cxx_extra])
    else:
        cpp = os.path.join(workdir, name + ".cpp")
        rc, so, se = generate_cpp(dl, cpp, extra, souffle_bin=souffle_bin)
        if rc != 0:
            raise GenError("souffle -g failed rc=%s: %s" % (rc, se[-2000:]))
        rc, out = compile_cpp([cpp], exe, cxx_extra)
    if rc != 0:
        if "precompiled header" in out or ".pch" in out and "modified since" in out:
            raise CheckError("stale precompiled header (machinery problem, not a property violation): " + out[-800:])
        raise GenError("C++ compilation failed rc=%s: %s" % (rc, out[-3000:]))
    return exe


class GenError(Exception):
    pass


def run_compiled(exe, facts_dir, out_dir, jobs=None, timeout=60, extra=()):
    os.makedirs(out_dir, exist_ok=True)
    cmd = [exe, "-F", facts_dir, "-D", out_dir]
    if jobs:
        cmd += ["-j", str(jobs)]
    cmd += list(extra)
    rc, so, se = sh(cmd, timeout=timeout)
    if rc is None:
        rc, so, se = sh(cmd, timeout=timeout * 10)
    return rc, so, se


def read_outputs(out_dir, prog, rels=None):
    """dict rel -> (set, dups) for the output relations of prog."""
    res = {}
    for name, r in prog.rels.items():
        if not r.is_output:
            continue
        if rels is not None and name not in rels:
            continue
        res[name] = read_relation(os.path.join(out_dir, name + ".csv"), r, prog.typeinfo)
    return res


def merge_programs(progs):
    """Union of several small programs that share (identically declared) EDB relations."""
    m = Program()
    seen_types = set()
    seen_extra = set()
    for p in progs:
        for t in p.types:
            if t not in seen_types:
                seen_types.add(t)
                m.types.append(t)
        for t in p.extra:
            if t not in seen_extra:
                seen_extra.add(t)
                m.extra.append(t)
        m.typeinfo.update(p.typeinfo)
        for n, r in p.rels.items():
            if n in m.rels:
                o = m.rels[n]
                assert o.attrs == r.attrs and o.quals == r.quals, "conflicting declarations of " + n
            else:
                m.rels[n] = r
        m.rules += list(p.rules)
        m.facts += list(p.facts)
    return m
