"""Family registry: which bounded-exhaustive families feed which property, per tier."""
from . import gen

_cache = {}


def core_cases(max_body, **kw):
    key = ("core", max_body, tuple(sorted(kw.items())))
    if key not in _cache:
        specs = gen.enum_core(max_body=max_body, **kw)
        cs = [gen.make_core_case(i, s) for i, s in enumerate(specs)]
        _cache[key] = [c for c in cs if c is not None]
    return _cache[key]


def c01_slice(tier):
    fams = []
    if tier == "quick":
        fams.append(("core2", core_cases(2), gen.dbs_core_quick()))
    else:
        fams.append(("core2", core_cases(2), gen.dbs_core_thorough()))
    return fams
