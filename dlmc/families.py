"""Family registry: which bounded-exhaustive families feed which property, per tier."""
from . import gen, gen2

_cache = {}


def core_cases(max_body, **kw):
    key = ("core", max_body, tuple(sorted(kw.items())))
    if key not in _cache:
        specs = gen.enum_core(max_body=max_body, **kw)
        cs = [gen.make_core_case(i, s) for i, s in enumerate(specs)]
        _cache[key] = [c for c in cs if c is not None]
    return _cache[key]


def ae_dbs(tier):
    import os
    d = gen.dbs_core_quick() if tier == "quick" else gen.dbs_core_thorough()
    lim = os.environ.get("VERIF_DBLIMIT")      # smoke tests of the thorough generators only
    if lim:
        d = d[-int(lim):]
    return d


def small_families(tier):
    """(name, cases, dbs) for every non-core family."""
    q = ae_dbs(tier)
    out = []
    out.append(("mutrec", gen2.family_mutrec(tier), q))
    out.append(("multirec", gen2.family_multirec(tier), q))
    out.append(("nullary", gen2.family_nullary(tier), q))
    out.append(("ineq", gen2.family_ineq(tier), q))
    out.append(("strat", gen2.family_strat(tier), q))
    c, d = gen2.family_arith(tier, part="safe")
    out.append(("arith", c, d))
    c, d = gen2.family_arith(tier, part="risky")
    out.append(("arith-div", c, d))
    out.append(("agg", gen2.family_agg(tier), q))
    c, d = gen2.family_agg3(tier)
    out.append(("agg3", c, d))
    c, d = gen2.family_aggtyped(tier)
    out.append(("aggtyped", c, d))
    out.append(("rec", gen2.family_rec(tier), q))
    out.append(("adt", gen2.family_adt(tier), q))
    c, d = gen2.family_str(tier)
    out.append(("str", c, d))
    out.append(("shape", gen2.family_shape(tier), q))
    c, d = gen2.family_rangetyped(tier)
    out.append(("rangetyped", c, d))
    return out


def c01_slice(tier, only=None):
    fams = []
    if tier == "quick":
        fams.append(("core2", core_cases(2), gen.dbs_core_quick()))
    else:
        fams.append(("core2", core_cases(2), gen.dbs_core_thorough()))
    fams += small_families(tier)
    if only:
        fams = [f for f in fams if f[0] in only]
    return fams


def renumber(cases, start=0):
    """cases keep their relation suffixes; cids must only be unique within one differential() call"""
    return cases


def compiled_slice(tier):
    """Slice used by the checks that pay a C++ compile per batch or multiply the slice by many
    configurations (C02, C03, C04, C05, C06, C07, C08, C20 ...).  Still exhaustive per family, with smaller
    alphabets: core1 = all 1-literal bodies; core2xy = all 2-literal bodies over variables x,y (no constants)."""
    fams = []
    q = gen.dbs_core_quick()
    if tier == "quick":
        fams.append(("core1", core_cases(1), q))
        fams.append(("core2xy", core_cases(2, terms=("x", "y"), consts=(), cmp_ops=("<",)), q))
        sm = small_families("quick")
        for i, (n, c, d) in enumerate(sm):
            if n == "strat":
                sm[i] = (n, gen2.family_strat("quick", subset=("neg", "rec", "recneg")), d)
        fams += sm
    else:
        fams.append(("core2", core_cases(2), q))
        fams += small_families("quick")
    return fams


def take_spread(cases, n):
    """n cases spread evenly over the (simplest-first) enumeration order: deterministic, not random."""
    if len(cases) <= n:
        return list(cases)
    step = len(cases) / float(n)
    return [cases[int(i * step)] for i in range(n)]
