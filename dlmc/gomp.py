"""Builds a generated (compiled-mode) souffle program as a vsched harness: OpenMP runtime replaced by the shim in
vsched/harness/gomp_prog.cpp, B-tree nodes shrunk to 3 keys, facts and oracle data generated into a header."""
import os, re, subprocess
from .common import *
from .dl import print_program
from . import ref


def _enc(v):
    """RamDomain image of a value (floats by bit pattern)"""
    if v.__class__.__name__ == "F32":
        return v.bits - (1 << 32) if v.bits >= (1 << 31) else v.bits
    return int(v)


def cpp_set(ts):
    return "{" + ", ".join("{" + ",".join(str(_enc(v)) for v in t) + "}" for t in sorted(ts, key=lambda t: [_enc(v) for v in t])) + "}"


def build(name, prog, scenarios, kind, nthreads=2, extra=None):
    """scenarios: list of (desc, db dict).  kind: 'equal' | ('choice', keyidx tuples) | ('autoinc', ncounters).
    Returns path of the harness executable."""
    d = os.path.join(VBUILD, "gomp", name)
    os.makedirs(d, exist_ok=True)
    with open(os.path.join(d, "prog.dl"), "w") as f:
        f.write(print_program(prog))
    rc, so, se = sh([SOUFFLE, "--no-preprocessor", "-w", "-j", "4", "-g", os.path.join(d, "prog_raw.cpp"), os.path.join(d, "prog.dl")], timeout=300)
    if rc != 0:
        raise CheckError("souffle -g failed for %s: %s" % (name, se[-400:]))
    src = open(os.path.join(d, "prog_raw.cpp")).read()
    src, n = re.subn(r"btree_set<t_tuple,(t_comparator_\d+)>", r"btree_set<t_tuple,\1,std::allocator<t_tuple>,16>", src)
    with open(os.path.join(d, "prog_gen.cpp"), "w") as f:
        f.write(src)
    outs = [n_ for n_, r in prog.rels.items() if r.is_output]
    ins = [n_ for n_, r in prog.rels.items() if r.is_input]
    h = ["#include <set>", "#include <vector>", "#include <string>", '#define PROG_NAME "prog_raw"', "#define N_THREADS %d" % nthreads,
         "struct FT { int scenario; const char* rel; std::vector<int> t; };"]
    facts = []
    for si, (desc, db) in enumerate(scenarios):
        for r in ins:
            for t in db.get(r, ()):
                facts.append('{%d, "%s", {%s}}' % (si, r, ",".join(str(int(v)) for v in t)))
    h.append("static const FT FACTS[] = {%s};" % (", ".join(facts) if facts else '{-1, "", {}}'))
    h.append("static const int N_FACTS = %d;" % max(1, len(facts)))
    h.append("static const int N_SCENARIOS = %d;" % len(scenarios))
    h.append("static const char* SCENARIO_DESC[] = {%s};" % ", ".join('"%s"' % desc.replace('"', "'") for desc, _ in scenarios))
    h.append("static const char* OUTPUTS[] = {%s};\nstatic const int N_OUTPUTS = %d;" % (", ".join('"%s"' % o for o in outs), len(outs)))
    h.append("using TS = std::set<std::vector<int>>;")
    h.append("static TS expected(int s, int k) {\n  switch (s * %d + k) {" % len(outs))
    refprog = extra["ref_prog"] if extra and "ref_prog" in extra else prog
    nder = {}
    for si, (desc, db) in enumerate(scenarios):
        model = ref.evaluate(refprog, db)
        full = {n_: set(db.get(n_, ())) for n_ in refprog.rels}
        for k, o in enumerate(outs):
            h.append("    case %d: return %s;" % (si * len(outs) + k, cpp_set(model[o])))
            nder[(si, k)] = sum(len(ref.derive(r, model)) for r in refprog.rules if r.__class__.__name__ == "Rule" and any(hd.rel == o for hd in r.heads))
    h.append("  }\n  return {};\n}")
    if kind == "equal":
        h.append("static bool oracle(int s, int k, const TS& got, std::string& why) {\n  if (got != expected(s, k)) { why = \"differs from the reference model (\" + std::to_string(got.size()) + \" tuples, expected \" + std::to_string(expected(s, k).size()) + \")\"; return false; }\n  return true;\n}")
    elif kind[0] == "choice":
        keys = kind[1]
        h.append("static const std::vector<std::vector<int>> KEYS = {%s};" % ", ".join("{" + ",".join(str(i) for i in key) + "}" for key in keys))
        h.append("""static bool oracle(int s, int k, const TS& got, std::string& why) {
  TS U = expected(s, k);   // result without the choice constraint (the program is not recursive)
  for (auto& key : KEYS) { std::set<std::vector<int>> seen; for (auto& t : got) { std::vector<int> kv; for (int i : key) kv.push_back(t[i]); if (!seen.insert(kv).second) { why = "two tuples agree on a key"; return false; } } }
  for (auto& t : got) if (!U.count(t)) { why = "tuple not derivable"; return false; }
  for (auto& t : U) { if (got.count(t)) continue; bool clash = false; for (auto& key : KEYS) for (auto& u : got) { bool eq = true; for (int i : key) if (u[i] != t[i]) eq = false; if (eq) clash = true; } if (!clash) { why = "derivable tuple absent without a key clash"; return false; } }
  return true;
}""")
    elif kind[0] == "autoinc":
        nc = kind[1]
        h.append("static int nder(int s, int k) {\n  switch (s * %d + k) {" % len(outs))
        for (si, k), v in nder.items():
            h.append("    case %d: return %d;" % (si * len(outs) + k, v))
        h.append("  }\n  return -1;\n}")
        h.append("""static bool oracle(int s, int k, const TS& got, std::string& why) {
  const int NC = %d;
  std::set<int> counters; TS proj; size_t n = 0;
  for (auto& t : got) { std::vector<int> p(t.begin(), t.end() - NC); for (int i = 0; i < NC; i++) { p.push_back(0); if (!counters.insert(t[t.size() - NC + i]).second) { why = "an auto-increment value was handed out twice"; return false; } } proj.insert(p); n++; }
  if (proj != expected(s, k)) { why = "projection differs from the reference model"; return false; }
  if ((int)n != nder(s, k)) { why = std::to_string(n) + " tuples for " + std::to_string(nder(s, k)) + " derivations"; return false; }
  return true;
}""" % nc)
    with open(os.path.join(d, "prog_expected.h"), "w") as f:
        f.write("\n".join(h) + "\n")
    # runtime object
    with Lock("vs-build"):
        r = subprocess.run([os.path.join(VERIF, "vsched", "build.sh"), "c30_lock"], stdout=subprocess.PIPE, stderr=subprocess.STDOUT, text=True)   # makes sure vsched-<hash>.o exists
    rts = [x for x in os.listdir(os.path.join(VBUILD, "vs")) if x.startswith("vsched-") and x.endswith(".o")]
    if not rts:
        raise CheckError("vsched runtime object missing")
    rt = os.path.join(VBUILD, "vs", rts[0])
    obj = os.path.join(d, "harness.o")
    exe = os.path.join(d, "harness")
    cmd = ["g++", "-std=c++17", "-O1", "-g0", "-w", "-fopenmp", "-fsanitize=thread", "--param", "tsan-distinguish-volatile=1", "-D__EMBEDDED_SOUFFLE__",
           "-fno-access-control", "-I" + os.path.join(REPO, "src", "include"), "-I" + os.path.join(VERIF, "vsched"), "-I" + d,
           "-c", os.path.join(VERIF, "vsched", "harness", "gomp_prog.cpp"), "-o", obj]
    rc, so, se = sh(cmd, timeout=1800)
    if rc != 0:
        raise CheckError("gomp harness %s does not compile: %s" % (name, se[-1500:]))
    rc, so, se = sh(["g++", obj, rt, "-o", exe, "-ldl", "-lsqlite3", "-lz", "-lpthread"], timeout=600)
    if rc != 0:
        raise CheckError("gomp harness %s does not link: %s" % (name, se[-1500:]))
    return exe
