"""Reference evaluator: naive stratified bottom-up evaluation over the generator's AST.

Deliberately the dumbest possible implementation (nested loops, no deltas, no indexes, no join ordering
heuristics).  It shares no code or algorithm with souffle.
"""
import itertools, re
from fractions import Fraction
from .dl import *
from .vals import *


class NotStratifiable(Exception):
    pass


class Ungrounded(Exception):
    pass


MAX_ROUNDS = 200
MAX_TUPLES = 20000


# ------------------------------------------------------------------ preprocessing

def dnf(body):
    """Expand disjunctions: returns a list of conjunctive bodies (tuples of literals)."""
    outs = [[]]
    for l in body:
        if l.__class__ is Disj:
            alts = []
            for a in l.alts:
                alts += dnf(a)
            outs = [o + list(a) for o in outs for a in alts]
        else:
            outs = [o + [l] for o in outs]
    return [tuple(o) for o in outs]


def rule_deps(rule):
    """(relname, kind) for every body dependency; kind in 'pos','neg','agg'."""
    deps = []
    if rule.__class__ is Subsume:
        body = list(rule.body)
        heads = [rule.dominated]
        deps.append((rule.dominated.rel, "pos"))
    else:
        body = rule.body
        heads = rule.heads
    for a, pos, inagg in atoms_of_body(body):
        deps.append((a.rel, "agg" if inagg else ("pos" if pos else "neg")))
    # aggregates in head arguments are not supported by souffle; ignore
    return [h.rel for h in heads], deps


def sccs(nodes, edges):
    """Tarjan; returns SCCs in topological order (dependencies first). edges: node -> set(successors = things it depends on)."""
    index = {}
    low = {}
    stack = []
    on = set()
    out = []
    counter = [0]

    def visit(v):
        # iterative Tarjan
        work = [(v, iter(sorted(edges.get(v, ()))))]
        index[v] = low[v] = counter[0]
        counter[0] += 1
        stack.append(v)
        on.add(v)
        while work:
            node, it = work[-1]
            advanced = False
            for w in it:
                if w not in index:
                    index[w] = low[w] = counter[0]
                    counter[0] += 1
                    stack.append(w)
                    on.add(w)
                    work.append((w, iter(sorted(edges.get(w, ())))))
                    advanced = True
                    break
                elif w in on:
                    low[node] = min(low[node], index[w])
            if advanced:
                continue
            work.pop()
            if work:
                parent = work[-1][0]
                low[parent] = min(low[parent], low[node])
            if low[node] == index[node]:
                comp = []
                while True:
                    w = stack.pop()
                    on.discard(w)
                    comp.append(w)
                    if w == node:
                        break
                out.append(comp)

    for v in nodes:
        if v not in index:
            visit(v)
    return out   # dependencies come first because we follow "depends on" edges


def stratify(prog):
    nodes = list(prog.rels.keys())
    edges = {n: set() for n in nodes}
    bad = {}
    for r in prog.rules:
        heads, deps = rule_deps(r)
        for h in heads:
            for d, k in deps:
                edges.setdefault(h, set()).add(d)
                if k != "pos":
                    bad.setdefault(h, set()).add(d)
    comps = sccs(nodes, edges)
    where = {}
    for i, c in enumerate(comps):
        for n in c:
            where[n] = i
    for h, ds in bad.items():
        for d in ds:
            if where.get(h) == where.get(d):
                raise NotStratifiable("%s depends on %s through negation/aggregation in a cycle" % (h, d))
    return comps, edges


# ------------------------------------------------------------------ expression evaluation

def evs(t, env, db, rule_outer=None):
    """Generator of the values a term can take under env (multi-valued because of range and aggregates)."""
    c = t.__class__
    if c is Var:
        if t.name not in env:
            raise Ungrounded(t.name)
        yield env[t.name]
    elif c is Num:
        yield t.v
    elif c is Uns:
        yield U(t.v)
    elif c is Flt:
        yield F32(t.v)
    elif c is Sym:
        yield t.s
    elif c is Nil:
        yield None
    elif c is As:
        yield from evs(t.expr, env, db, rule_outer)
    elif c is Rec:
        for vs in itertools.product(*[list(evs(a, env, db, rule_outer)) for a in t.args]):
            yield tuple(vs)
    elif c is Adt:
        for vs in itertools.product(*[list(evs(a, env, db, rule_outer)) for a in t.args]):
            yield AdtV(t.branch, tuple(vs))
    elif c is Fn:
        argvals = [list(evs(a, env, db, rule_outer)) for a in t.args]
        for vs in itertools.product(*argvals):
            if t.op == "range":
                yield from range_values(list(vs))
            else:
                yield apply_fn(t.op, list(vs))
    elif c is Agg:
        yield from eval_agg(t, env, db, rule_outer)
    elif c is Anon:
        raise Ungrounded("_")
    else:
        raise Undefined("cannot evaluate " + c.__name__)


def is_ground(t, env):
    for s in subterms(t):
        if s.__class__ is Var and s.name not in env:
            return False
        if s.__class__ is Anon:
            return False
        if s.__class__ is Agg:
            pass
    return True


def is_pattern(t):
    c = t.__class__
    if c in (Var, Anon, Num, Uns, Flt, Sym, Nil):
        return True
    if c in (Rec, Adt):
        return all(is_pattern(a) for a in t.args)
    if c is As:
        return is_pattern(t.expr)
    return False


def unify(t, v, env):
    """Match pattern term t against value v, extending env (returns new env or None)."""
    c = t.__class__
    if c is Anon:
        return env
    if c is Var:
        if t.name in env:
            return env if env[t.name] == v else None
        e = dict(env)
        e[t.name] = v
        return e
    if c is Num:
        return env if (not isinstance(v, U) and isinstance(v, int) and v == t.v) else None
    if c is Uns:
        return env if (isinstance(v, int) and int(v) == t.v) else None
    if c is Flt:
        return env if v == F32(t.v) else None
    if c is Sym:
        return env if v == t.s else None
    if c is Nil:
        return env if v is None else None
    if c is As:
        return unify(t.expr, v, env)
    if c is Rec:
        if v is None or not isinstance(v, tuple) or len(v) != len(t.args):
            return None
        for a, x in zip(t.args, v):
            env = unify(a, x, env)
            if env is None:
                return None
        return env
    if c is Adt:
        if not isinstance(v, AdtV) or v.branch != t.branch or len(v.args) != len(t.args):
            return None
        for a, x in zip(t.args, v.args):
            env = unify(a, x, env)
            if env is None:
                return None
        return env
    raise TypeError("not a pattern: " + repr(t))


def agg_outer_vars(agg, rule_outer):
    inner = []
    for l in agg.body:
        for v in vars_of(l, True):
            if v not in inner:
                inner.append(v)
    if agg.target is not None:
        for v in vars_of(agg.target, True):
            if v not in inner:
                inner.append(v)
    # souffle's scoping rule (SimplifyAggregateTargetExpression): variables of a complex target expression
    # shadow outer-scope variables of the same name, i.e. they are local to the aggregate
    local = set()
    if agg.target is not None and agg.target.__class__ is not Var:
        local = set(vars_of(agg.target, True))
    return [v for v in inner if rule_outer is not None and v in rule_outer and v not in local]


def exact_float_sum(vals):
    fr = [Fraction(x.f) for x in vals]
    if not fr:
        return F32(0.0)
    # all partial sums (in any order) are exact if sum |x| * 2^k < 2^24 for the common scale 2^-k
    den = 1
    for f in fr:
        den = max(den, f.denominator)
    if sum(abs(f) for f in fr) * den >= 2 ** 24:
        raise Undefined("float sum may round")
    return F32(float(sum(fr)))


def eval_agg(agg, env, db, rule_outer):
    outer = agg_outer_vars(agg, rule_outer)
    for v in outer:
        if v not in env:
            raise Ungrounded(v)
    env0 = {v: env[v] for v in outer}
    # the scope a NESTED aggregate injects from: variables occurring in this aggregate's body outside nested aggregates
    inner_outer = set(vars_of(Atom("_", [agg.target] if agg.target is not None else []), False))
    for l in agg.body:
        inner_outer.update(vars_of(l, False))
    inner_outer.update(env0)
    vals = []
    n = 0
    for e in solve(list(agg.body), env0, db, inner_outer):
        n += 1
        if agg.target is not None:
            tv = list(evs(agg.target, e, db, inner_outer))
            if len(tv) != 1:
                raise Undefined("multi-valued aggregate target")
            vals.append(tv[0])
    op = agg.op
    if any(v is ZeroOfUnknownType for v in vals):
        # a nested sum over an empty set: a zero of the (here unknown) target type
        typed = [v for v in vals if v is not ZeroOfUnknownType]
        z = zero_like(typed[0]) if typed else 0
        vals = [z if v is ZeroOfUnknownType else v for v in vals]
    if op == "count":
        yield n
        return
    if op == "sum":
        if not vals:
            # typed zero cannot be known from an empty list; souffle yields 0 of the target type
            yield ZeroOfUnknownType
            return
        k = kind(vals[0])
        if k == "i":
            yield chk_i(sum(vals))
        elif k == "u":
            yield to_u(sum(int(x) for x in vals))
        else:
            yield exact_float_sum(vals)
        return
    if not vals:
        return
    k = kind(vals[0])
    if op in ("min", "max"):
        if k == "f":
            if any(x.isnan() for x in vals):
                raise Undefined("nan")
            best = vals[0]
            for x in vals[1:]:
                if x.f == best.f and x.bits != best.bits:
                    raise Undefined("signed zero")
                if (x.f < best.f) if op == "min" else (x.f > best.f):
                    best = x
            yield best
        elif k in ("i", "u", "s"):
            yield min(vals) if op == "min" else max(vals)
        else:
            raise Undefined("min/max on records")
        return
    if op == "mean":
        # souffle accumulates the values and their number as 32-bit floats and divides once; with an exactly representable sum
        # (checked by exact_float_sum) the result is the correctly rounded quotient whatever the order of summation
        if k != "f":
            raise Undefined("mean of non-float values")
        if any(x.isnan() for x in vals):
            raise Undefined("nan")
        total = exact_float_sum(vals)
        yield F32(total.f / len(vals))
        return
    raise Undefined("aggregate " + op)


class _Zero:
    def __repr__(self):
        return "<0>"


ZeroOfUnknownType = _Zero()


# ------------------------------------------------------------------ body solving

def literal_ready(l, env, rule_outer):
    c = l.__class__
    if c is Atom:
        for a in l.args:
            if not is_pattern(a):
                for s in subterms(a):
                    if s.__class__ is Var and s.name not in env:
                        # may still be bound by a pattern argument of this same atom
                        bound_here = set()
                        for b in l.args:
                            if is_pattern(b):
                                bound_here.update(vars_of(b))
                        if s.name not in bound_here:
                            return False
                    if s.__class__ is Agg:
                        for v in agg_outer_vars(s, rule_outer):
                            if v not in env:
                                return False
        return True
    if c is Neg:
        for a in l.atom.args:
            for s in subterms(a):
                if s.__class__ is Var and s.name not in env:
                    return False
        return True
    if c is Cmp:
        lg = term_evaluable(l.lhs, env, rule_outer)
        rg = term_evaluable(l.rhs, env, rule_outer)
        if lg and rg:
            return True
        if l.op == "=":
            if rg and is_pattern(l.lhs):
                return True
            if lg and is_pattern(l.rhs):
                return True
        return False
    if c in (Match, Contains):
        return all(term_evaluable(x, env, rule_outer) for x in ((l.pat, l.s) if c is Match else (l.sub, l.s)))
    if c is BoolLit:
        return True
    raise TypeError(c)


def term_evaluable(t, env, rule_outer):
    for s in subterms(t):
        if s.__class__ is Var and s.name not in env:
            return False
        if s.__class__ is Anon:
            return False
        if s.__class__ is Agg:
            for v in agg_outer_vars(s, rule_outer):
                if v not in env:
                    return False
    return True


def solve(lits, env, db, rule_outer):
    """Generator of environments satisfying all literals."""
    if not lits:
        yield env
        return
    # pick the first ready literal; prefer filters/binders over atoms only when ready (order is irrelevant
    # for the result, it only needs to be a valid grounding order)
    pick = None
    for i, l in enumerate(lits):
        if literal_ready(l, env, rule_outer):
            pick = i
            break
    if pick is None:
        raise Ungrounded("no evaluable literal among " + show_body(lits))
    l = lits[pick]
    rest = lits[:pick] + lits[pick + 1:]
    c = l.__class__
    if c is Atom:
        pats = [(i, a) for i, a in enumerate(l.args) if is_pattern(a)]
        exprs = [(i, a) for i, a in enumerate(l.args) if not is_pattern(a)]
        for tup in list(db[l.rel]):
            e = env
            for i, a in pats:
                e = unify(a, tup[i], e)
                if e is None:
                    break
            if e is None:
                continue
            ok = True
            for i, a in exprs:
                vs = list(evs(a, e, db, rule_outer))
                if tup[i] not in vs:
                    ok = False
                    break
            if ok:
                yield from solve(rest, e, db, rule_outer)
    elif c is Neg:
        a = l.atom
        found = False
        argsets = []
        for x in a.args:
            if x.__class__ is Anon:
                argsets.append(None)
            else:
                argsets.append(list(evs(x, env, db, rule_outer)))
        for tup in db[a.rel]:
            if all(s is None or tup[i] in s for i, s in enumerate(argsets)):
                found = True
                break
        if not found:
            yield from solve(rest, env, db, rule_outer)
    elif c is Cmp:
        lg = term_evaluable(l.lhs, env, rule_outer)
        rg = term_evaluable(l.rhs, env, rule_outer)
        if lg and rg:
            for x in evs(l.lhs, env, db, rule_outer):
                for y in evs(l.rhs, env, db, rule_outer):
                    x2, y2 = fix_zero(x, y)
                    if compare(l.op, x2, y2):
                        yield from solve(rest, env, db, rule_outer)
        else:
            pat, ex = (l.lhs, l.rhs) if rg else (l.rhs, l.lhs)
            for y in evs(ex, env, db, rule_outer):
                if y is ZeroOfUnknownType:
                    if pat.__class__ is Var:
                        e = dict(env)
                        e[pat.name] = y
                        yield from solve(rest, e, db, rule_outer)
                        continue
                    raise Undefined("untyped zero")
                e = unify(pat, y, env)
                if e is not None:
                    yield from solve(rest, e, db, rule_outer)
    elif c is Match:
        for p in evs(l.pat, env, db, rule_outer):
            for s in evs(l.s, env, db, rule_outer):
                if regex_full(p, s):
                    yield from solve(rest, env, db, rule_outer)
    elif c is Contains:
        for p in evs(l.sub, env, db, rule_outer):
            for s in evs(l.s, env, db, rule_outer):
                if p in s:
                    yield from solve(rest, env, db, rule_outer)
    elif c is BoolLit:
        if l.v:
            yield from solve(rest, env, db, rule_outer)


def fix_zero(x, y):
    if x is ZeroOfUnknownType and y is ZeroOfUnknownType:
        return 0, 0
    if x is ZeroOfUnknownType:
        return zero_like(y), y
    if y is ZeroOfUnknownType:
        return x, zero_like(x)
    return x, y


def zero_like(v):
    k = kind(v)
    return {"i": 0, "u": U(0), "f": F32(0.0)}[k]


def regex_full(p, s):
    if not re.fullmatch(r"[A-Za-z0-9.*+?|()\[\]-]*", p):
        raise Undefined("regex outside modelled subset")
    try:
        return re.fullmatch(p, s) is not None
    except re.error:
        raise Undefined("bad regex")


# ------------------------------------------------------------------ rules and programs

def rule_all_vars(rule):
    out = set()
    for h in rule.heads:
        out.update(vars_of(h, False))
    for l in rule.body:
        out.update(vars_of(l, False))
    return out


def outer_vars_of(heads, body):
    """Variables that occur outside aggregates in the rule (the scope aggregates inject from)."""
    out = set()
    for h in heads:
        out.update(vars_of(h, False))
    for l in body:
        out.update(vars_of(l, False))
    return out


def derive(rule, db, types_of=None):
    """All head tuples derivable by one application of a (conjunctive) rule to db: list of (rel, tuple)."""
    out = []
    for body in dnf(rule.body):
        outer = outer_vars_of(rule.heads, body)
        for env in solve(list(body), {}, db, outer):
            for h in rule.heads:
                argvals = [list(evs(a, env, db, outer)) for a in h.args]
                for vs in itertools.product(*argvals):
                    vs = tuple(vs)
                    if any(v is ZeroOfUnknownType for v in vs):
                        vs = tuple(_typed_zero(types_of, h.rel, i) if v is ZeroOfUnknownType else v
                                   for i, v in enumerate(vs))
                    out.append((h.rel, vs))
    return out


def _typed_zero(types_of, rel, i):
    if types_of is None:
        raise Undefined("untyped zero")
    t = types_of(rel, i)
    if t == "number":
        return 0
    if t == "unsigned":
        return U(0)
    if t == "float":
        return F32(0.0)
    raise Undefined("untyped zero of " + str(t))


def eqrel_close(pairs):
    parent = {}

    def find(x):
        while parent[x] != x:
            parent[x] = parent[parent[x]]
            x = parent[x]
        return x
    for a, b in pairs:
        for x in (a, b):
            parent.setdefault(x, x)
        ra, rb = find(a), find(b)
        if ra != rb:
            parent[ra] = rb
    classes = {}
    for x in parent:
        classes.setdefault(find(x), []).append(x)
    out = set()
    for c in classes.values():
        for a in c:
            for b in c:
                out.add((a, b))
    return out


def evaluate(prog, edb, rounds_cap=MAX_ROUNDS, tuples_cap=MAX_TUPLES, trace_rounds=None):
    """Stratified least model. edb: dict rel -> iterable of tuples (for input relations).
    Returns dict rel -> set of tuples.  Raises Undefined / NotStratifiable / Ungrounded."""
    comps, _ = stratify(prog)
    db = {n: set() for n in prog.rels}
    for n, ts in edb.items():
        if n in db:
            db[n].update(ts)
    for f in prog.facts:
        vs = []
        for a in f.args:
            v = list(evs(a, {}, db))
            vs.append(v[0])
        db[f.rel].add(tuple(vs))
    for n, r in prog.rels.items():
        if "eqrel" in r.quals:
            db[n] = eqrel_close(db[n])

    def types_of(rel, i):
        from .vals import base_type
        return base_type(prog.rels[rel].attrs[i][1], prog.typeinfo)

    for comp in comps:
        cs = set(comp)
        rules = [r for r in prog.rules if r.__class__ is Rule and any(h.rel in cs for h in r.heads)]
        if not rules:
            continue
        rounds = 0
        while True:
            rounds += 1
            if rounds > rounds_cap:
                raise Undefined("reference evaluation did not converge")
            new = []
            for r in rules:
                for rel, tup in derive(r, db, types_of):
                    if tup not in db[rel]:
                        new.append((rel, tup))
            if not new:
                break
            touched = set()
            for rel, tup in new:
                db[rel].add(tup)
                touched.add(rel)
            for rel in touched:
                if "eqrel" in prog.rels[rel].quals:
                    db[rel] = eqrel_close(db[rel])
                if len(db[rel]) > tuples_cap:
                    raise Undefined("reference relation too large")
            if trace_rounds is not None:
                trace_rounds.append((tuple(sorted(comp)), rounds, len(new)))
            recursive = any(a.rel in cs for r in rules for a, _, _ in atoms_of_body(r.body))
            if not recursive:
                break
    return db


def immediate_consequences(prog, db, rels=None):
    """T_P restricted to the rules for `rels` applied once to db (db must hold all relations)."""
    out = {}
    for r in prog.rules:
        if r.__class__ is not Rule:
            continue
        if rels is not None and not any(h.rel in rels for h in r.heads):
            continue
        for rel, tup in derive(r, db):
            out.setdefault(rel, set()).add(tup)
    return out
