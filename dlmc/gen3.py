"""Value-level families: intrinsic functors and constraints over boundary grids (C24), numeric/IO families (C17/C18)."""
import itertools, math
from .dl import *
from .vals import *
from .gen import Case
from . import ref

MAXF = 3.4028234663852886e38


def grid_number(tier):
    b = [0, 1, -1, 2, -2, 3, 7, 8, 31, 32, 33, 63, MAXI, MAXI - 1, MINI, MINI + 1, 65536, -65536]
    cube = list(range(-4, 5)) if tier == "quick" else list(range(-8, 9))
    pairs = set(itertools.product(b, b)) | set(itertools.product(cube, cube))
    return sorted(pairs), sorted(set(b) | set(cube))


def grid_unsigned(tier):
    b = [0, 1, 2, 3, 7, 8, 31, 32, 33, 2 ** 31 - 1, 2 ** 31, MAXU, MAXU - 1, 65536]
    cube = list(range(0, 9)) if tier == "quick" else list(range(0, 17))
    pairs = set(itertools.product(b, b)) | set(itertools.product(cube, cube))
    return sorted(pairs), sorted(set(b) | set(cube))


def grid_float(tier):
    # (-0.0 is not an INPUT value: a relation holding tuples that differ only in the sign of a zero is stored differently by the
    #  interpreter (bit patterns) and by compiled code (float comparison) - that is C02's finding, not an operator semantics question;
    #  -0.0 still occurs as a RESULT, e.g. neg(0.0), 0.0 * -1.0)
    b = [0.0, 1.0, -1.0, 0.5, 2.0, 3.0, -2.5, 1e10, -1e10, 16777216.0, 16777217.0, math.inf, -math.inf, MAXF, 0.1, 100.0]
    vals = [F32(x) for x in b]
    pairs = list(itertools.product(vals, vals))
    return pairs, vals


BIN_INT = ["+", "-", "*", "/", "%", "^", "band", "bor", "bxor", "bshl", "bshr", "bshru", "land", "lor", "lxor", "max", "min"]
UN_INT = ["neg", "bnot", "lnot"]
BIN_UNS = ["+", "-", "*", "/", "%", "^", "band", "bor", "bxor", "bshl", "bshr", "bshru", "land", "lor", "lxor", "max", "min"]
UN_UNS = ["bnot", "lnot"]
BIN_FLT = ["+", "-", "*", "/", "^", "max", "min"]
UN_FLT = ["neg"]
CMPS = ["=", "!=", "<", "<=", ">", ">="]


def _mk(ty, v):
    if ty == "number":
        return int(v)
    if ty == "unsigned":
        return U(v)
    return v if isinstance(v, F32) else F32(v)


def _lit(ty, v):
    if ty == "number":
        return Num(int(v))
    if ty == "unsigned":
        return Uns(int(v))
    return Flt(v.f)


def family_functors(tier, start=0, literals=False):
    """One case per (operator, operand type): r(x,y,x OP y) :- in(x,y) with `in` holding every pair of the grid on
    which the reference defines the result (the others are counted as outside the defined domain)."""
    cases = []
    cid = start
    skipped = 0
    X, Y = Var("x"), Var("y")
    specs = []
    pn, vn = grid_number(tier)
    pu, vu = grid_unsigned(tier)
    pf, vf = grid_float(tier)
    for op in BIN_INT:
        specs.append((op, "number", "number", 2, pn))
    for op in UN_INT:
        specs.append((op, "number", "number", 1, vn))
    for op in BIN_UNS:
        specs.append((op, "unsigned", "unsigned", 2, pu))
    for op in UN_UNS:
        specs.append((op, "unsigned", "unsigned", 1, vu))
    for op in BIN_FLT:
        specs.append((op, "float", "float", 2, pf))
    for op in UN_FLT:
        specs.append((op, "float", "float", 1, vf))
    # conversions
    for op, src, dst, vals in (("to_float", "number", "float", vn), ("to_unsigned", "number", "unsigned", vn), ("to_string", "number", "symbol", vn),
                               ("to_number", "unsigned", "number", vu), ("to_float", "unsigned", "float", vu), ("to_string", "unsigned", "symbol", vu),
                               ("to_number", "float", "number", vf), ("to_unsigned", "float", "unsigned", vf), ("to_string", "float", "symbol", vf),
                               ("to_number", "number", "number", vn), ("to_unsigned", "unsigned", "unsigned", vu), ("to_float", "float", "float", vf)):
        specs.append((op, src, dst, 1, vals))
    for op, ty, rty, ar, dom in specs:
        P = Program()
        inn, out = "in_%d" % cid, "o_%d" % cid
        rows = []
        for d in dom:
            args = [_mk(ty, a) for a in (d if ar == 2 else (d,))]
            try:
                r = apply_fn(op, args)
            except Undefined:
                skipped += 1
                continue
            if isinstance(r, F32) and r.isnan():
                skipped += 1
                continue
            rows.append(tuple(args))
        if literals:
            # constants in program text (exercises constant handling in the front end / synthesiser); sparse subset
            rows = rows[:: max(1, len(rows) // 40)]
            if ty == "number":
                # -2147483648 cannot be written as a literal (it is the negation of an out-of-range constant)
                rows = [r for r in rows if all(int(a) != MINI for a in r)]
            if ty == "float":
                rows = [r for r in rows if all(not math.isinf(a.f) and a.bits != 0x80000000 and abs(a.f) < 1e20 and (a.f == 0 or abs(a.f) > 1e-6) for a in r)]
            P.rel(out, [("x", ty)] + ([("y", ty)] if ar == 2 else []) + [("r", rty)], is_output=True)
            for r in rows:
                la = [_lit(ty, a) for a in r]
                P.rules.append(Rule([Atom(out, la + [Fn(op, la)])], [], None))
            edb = {}
        else:
            P.rel(inn, [("x", ty)] + ([("y", ty)] if ar == 2 else []), is_input=True)
            P.rel(out, [("x", ty)] + ([("y", ty)] if ar == 2 else []) + [("r", rty)], is_output=True)
            hv = [X, Y][:ar]
            P.rules.append(Rule([Atom(out, hv + [Fn(op, hv)])], [Atom(inn, hv)], None))
            edb = {inn: tuple(rows)}
        cases.append(Case(cid, "functor-lit" if literals else "functor", P, "%s/%d on %s (%d tuples)" % (op, ar, ty, len(rows)), edb=edb))
        cid += 1
    if not literals:
        # comparison constraints per type
        for ty, pairs in (("number", pn), ("unsigned", pu), ("float", pf)):
            for op in CMPS:
                P = Program()
                inn, out = "in_%d" % cid, "o_%d" % cid
                P.rel(inn, [("x", ty), ("y", ty)], is_input=True)
                P.rel(out, [("x", ty), ("y", ty)], is_output=True)
                P.rules.append(Rule([Atom(out, [X, Y])], [Atom(inn, [X, Y]), Cmp(op, X, Y)], None))
                rows = tuple((_mk(ty, a), _mk(ty, b)) for a, b in pairs)
                if ty == "float" and op in ("=", "!="):
                    # -0.0 = 0.0 : equality constraints on floats may be resolved by (bitwise) index lookups; stay with ordered comparisons there
                    rows = tuple(r for r in rows if not (r[0].f == 0 and r[1].f == 0 and r[0].bits != r[1].bits))
                cases.append(Case(cid, "constraint", P, "%s on %s (%d tuples)" % (op, ty, len(rows)), edb={inn: rows}))
                cid += 1
    return cases, skipped


STR_VALS = ["", "a", "ab", "abc", "b", "10", "-1", "0x1F", "0b101", "007", "2147483647", "ab a", "A"]


def family_strfunctors(tier, start=0):
    cases = []
    cid = start
    S, T2, N, M = Var("s"), Var("t"), Var("n"), Var("m")
    sv = [(s,) for s in STR_VALS]
    sp = [(a, b) for a in STR_VALS for b in STR_VALS]
    idx = [-1, 0, 1, 2, 3, 5]
    s3 = [(s, i, l) for s in STR_VALS[:6] for i in idx for l in idx]
    specs = [
        ("cat", [("s", "symbol"), ("t", "symbol")], "symbol", Fn("cat", [S, T2]), sp),
        ("strlen", [("s", "symbol")], "number", Fn("strlen", [S]), sv),
        ("substr", [("s", "symbol"), ("n", "number"), ("m", "number")], "symbol", Fn("substr", [S, N, M]), s3),
        ("max", [("s", "symbol"), ("t", "symbol")], "symbol", Fn("max", [S, T2]), sp),
        ("min", [("s", "symbol"), ("t", "symbol")], "symbol", Fn("min", [S, T2]), sp),
        ("to_number", [("s", "symbol")], "number", Fn("to_number", [S]), [(s,) for s in ["10", "-1", "007", "2147483647", "-2147483648", "0x1F", "0b101", "0", "12"]]),
        ("to_unsigned", [("s", "symbol")], "unsigned", Fn("to_unsigned", [S]), [(s,) for s in ["10", "007", "4294967295", "0", "12"]]),
        ("to_float", [("s", "symbol")], "float", Fn("to_float", [S]), [(s,) for s in ["10", "-1", "0.5", "12.25", "0"]]),
        ("to_string", [("s", "symbol")], "symbol", Fn("to_string", [S]), sv),
    ]
    for name, attrs, rty, ex, rows in specs:
        P = Program()
        inn, out = "in_%d" % cid, "o_%d" % cid
        P.rel(inn, attrs, is_input=True)
        P.rel(out, attrs + [("r", rty)], is_output=True)
        hv = [Var(a) for a, _ in attrs]
        P.rules.append(Rule([Atom(out, hv + [ex])], [Atom(inn, hv)], None))
        cases.append(Case(cid, "strfunctor", P, "%s (%d tuples)" % (name, len(rows)), edb={inn: tuple(rows)}))
        cid += 1
    for name, lit in (("lt", Cmp("<", S, T2)), ("le", Cmp("<=", S, T2)), ("gt", Cmp(">", S, T2)), ("ge", Cmp(">=", S, T2)), ("eq", Cmp("=", S, T2)),
                      ("ne", Cmp("!=", S, T2)), ("contains", Contains(S, T2)), ("match-lit", Match(Sym("a.*"), T2)), ("match-digits", Match(Sym("-?[0-9]+"), T2))):
        P = Program()
        inn, out = "in_%d" % cid, "o_%d" % cid
        P.rel(inn, [("s", "symbol"), ("t", "symbol")], is_input=True)
        P.rel(out, [("s", "symbol"), ("t", "symbol")], is_output=True)
        P.rules.append(Rule([Atom(out, [S, T2])], [Atom(inn, [S, T2]), lit], None))
        cases.append(Case(cid, "strconstraint", P, name, edb={inn: tuple(sp)}))
        cid += 1
    return cases
