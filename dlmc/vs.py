"""Driver for vsched harnesses: build from the working tree, enumerate scenarios, explore them in parallel,
aggregate evidence and write replay artefacts."""
import json, os, subprocess, time
from .common import *

VS_OUT = os.path.join(VBUILD, "vs")


def build_harness(name, extra=()):
    with Lock("vs-build"):
        r = subprocess.run([os.path.join(VERIF, "vsched", "build.sh"), name, *extra], stdout=subprocess.PIPE, stderr=subprocess.STDOUT, text=True)
        if r.returncode != 0:
            raise CheckError("harness %s does not build against the working tree:\n%s" % (name, r.stdout[-3000:]))
    return os.path.join(VS_OUT, name)


def list_scenarios(exe):
    r = subprocess.run([exe, "--list"], stdout=subprocess.PIPE, text=True)
    out = []
    for l in r.stdout.splitlines():
        i, d = l.split("\t", 1)
        out.append((int(i), d))
    return out


def _explore(arg):
    """Explore a chunk of scenarios in one harness process (one JSON line per scenario)."""
    exe, chunk, bound, budget, dpoints, horizon = arg[:6]
    por = arg[6] if len(arg) > 6 else 0
    out = []
    cmd = [exe, "--scenarios", ",".join(str(x) for x in chunk), "--bound", str(bound), "--dpoints", str(dpoints), "--horizon", str(horizon)]
    if por:
        cmd += ["--sleep", str(por)]
    if budget:
        cmd += ["--budget", str(budget)]
    try:
        r = subprocess.run(cmd, stdout=subprocess.PIPE, stderr=subprocess.PIPE, text=True, timeout=((budget or 600) * 3 + 600) * len(chunk))
        lines = [l for l in r.stdout.splitlines() if l.startswith("{")]
        seen = set()
        for l in lines:
            try:
                d = json.loads(l)
                out.append(d)
                seen.add(d["scenario"])
            except Exception as e:
                out.append({"scenario": None, "error": "bad json %s: %s" % (e, l[:300])})
        for sidx in chunk:
            if sidx not in seen:
                out.append({"scenario": sidx, "error": "no result (rc=%s) stderr=%s" % (r.returncode, r.stderr[-300:])})
    except subprocess.TimeoutExpired:
        out.append({"scenario": chunk[0], "error": "explorer timeout"})
    return out


def replay_schedule(exe, scenario, schedule, bound, dpoints=1, horizon=20000, conflicts=()):
    cmd = [exe, "--replay", str(scenario), "--schedule", ",".join(str(x) for x in schedule) or ",", "--bound", str(bound),
           "--dpoints", str(dpoints), "--horizon", str(horizon)]
    if conflicts:
        cmd += ["--conflicts", ",".join(str(x) for x in conflicts)]
    r = subprocess.run(cmd, stdout=subprocess.PIPE, stderr=subprocess.PIPE, text=True, timeout=3600)
    lines = [l for l in r.stdout.splitlines() if l.startswith("{")]
    obs = lines[-1] if lines else ("no output: " + r.stderr[-300:])
    return r.returncode != 0, obs


def explore_all(rep, harness, scenarios, bound, budget_per_scenario=None, dpoints=1, deadline=None, horizon=20000, classify=None, jobs=None, chunk=64, exe=None,
                extra_replay=None, por=2, por_budget=None):
    """scenarios: list of scenario indices. Adds coverage to rep; records violations (replayed twice first).
    Phase 1 (por != 0): every scenario without a preemption bound under partial-order reduction (DPOR + sleep sets; sleep sets alone
    when the harness registers a step invariant) for por_budget seconds; a scenario that completes is covered for ALL interleavings.
    Phase 2: the scenarios that did not complete are explored with the classic preemption-bounded search."""
    exe = exe or build_harness(harness)
    descs = dict(list_scenarios(exe))
    scenarios = list(scenarios)
    if budget_per_scenario:
        budget_per_scenario = max(1, budget_per_scenario * float(os.environ.get("VERIF_DEADLINE_SCALE", "1")))
    if por and dpoints == 1:
        rep.assume("exploration order: every scenario first WITHOUT a preemption bound under partial-order reduction (DPOR backtrack sets + sleep sets; sleep sets "
                   "only when the harness registers a step invariant); `scenarios_completed_all_interleavings` counts the scenarios whose reduced space was "
                   "exhausted within the budget (all interleavings at the granularity of the scheduling points), `por_incomplete` those that fell back to the "
                   "preemption-bounded search (`scenarios_completed_bound_k`); `por_sleep_set_blocked` = executions abandoned because every enabled thread was asleep")
        pb = por_budget or max(3, min(10, (budget_per_scenario or 30) / 3.0))
        rest = _explore_phase(rep, harness, exe, scenarios, bound, pb, dpoints, deadline, horizon, classify, jobs, chunk, extra_replay, por)
        if not rest:
            return descs
        scenarios = rest
    _explore_phase(rep, harness, exe, scenarios, bound, budget_per_scenario, dpoints, deadline, horizon, classify, jobs, chunk, extra_replay, 0)
    return descs


def _explore_phase(rep, harness, exe, scenarios, bound, budget_per_scenario, dpoints, deadline, horizon, classify, jobs, chunk, extra_replay, por):
    csz = max(1, min(chunk, (len(scenarios) + 4 * NCPU - 1) // (4 * NCPU)))
    args = [(exe, scenarios[i:i + csz], bound, budget_per_scenario, dpoints, horizon, por) for i in range(0, len(scenarios), csz)]
    nviol = 0
    rest = []
    results = (res for group in pmap_unordered(_explore, args, jobs=jobs) for res in group)
    for res in results:
        if "error" in res:
            rep.error("%s scenario %s: %s" % (harness, res.get("scenario"), res["error"]))
            continue
        if por:
            rep.add("por_executions", res["executions"])
            rep.add("por_sleep_set_blocked", res.get("sleep_blocked", 0))
            if res["capped"] and not res.get("violation"):
                # not complete without a bound within the budget: falls back to the preemption-bounded search
                rep.add("por_incomplete")
                rest.append(res["scenario"])
                continue
        rep.add("scenarios")
        rep.add("evaluations", res["executions"])
        rep.add("traces_validated_against_impl", res["executions"])
        rep.add("transitions", res["transitions"])
        rep.add("states", res["nodes"])
        rep.add("distinct_outcomes", res["distinct_outcomes"])
        if res["distinct_outcomes"] >= 2:
            rep.add("scenarios_with_several_outcomes")
        bc = res["bound_completed"]
        key = "scenarios_completed_bound_%d" % bc if bc < 1000000 else "scenarios_completed_all_interleavings"
        rep.add(key)
        if res["capped"]:
            rep.capped("%s scenario %d (%s) capped after %d executions at bound %d" % (harness, res["scenario"], res["desc"], res["executions"], bc + 1))
        if res["samples"]:
            rep.sample({"harness": harness, "scenario": res["desc"], "bound": bc if bc < 1000000 else "none (all interleavings, partial-order reduced)", "schedules": res["executions"], "outcomes": res["samples"][:3]}, cap=8)
        v = res.get("violation")
        if v:
            if classify:
                kf = classify(harness, res, v)
                if kf:
                    rep.known_finding(kf, res["desc"])
                    continue
            nviol += 1
            if nviol > 10:
                continue
            # replay twice in fresh processes: same observation and still violating, else it is my nondeterminism
            b1, o1 = replay_schedule(exe, res["scenario"], v["schedule"], bound, dpoints, horizon, v.get("conflicts", ()))
            b2, o2 = replay_schedule(exe, res["scenario"], v["schedule"], bound, dpoints, horizon, v.get("conflicts", ()))
            if not (b1 and b2 and o1 == o2):
                rep.error("violation in %s scenario %d did not replay deterministically: %s / %s" % (harness, res["scenario"], o1[:300], o2[:300]))
                continue
            rep.violation("%s [%s]: %s: %s" % (harness, res["desc"], v["kind"], v["obs"][:400]),
                          {"kind": "vsched", "harness": harness, "scenario": res["scenario"], "desc": res["desc"], "bound": bound, "dpoints": dpoints,
                           "horizon": horizon, "extra": extra_replay, "schedule": v["schedule"], "conflicts": v.get("conflicts", []), "threads": v.get("threads"), "observation": v["obs"], "violation_kind": v["kind"]})
        if deadline is not None and deadline.expired():
            rep.capped("deadline")
            break
    return rest


def replay_vs(obj):
    exe = build_harness(obj["harness"])
    bad, obs = replay_schedule(exe, obj["scenario"], obj["schedule"], obj["bound"], obj.get("dpoints", 1), obj.get("horizon", 20000), obj.get("conflicts", ()))
    return bad, obs


def run_plan(rep, harness, plan, deadline=None, group_of=None):
    """plan: list of (group_name, bound, budget, stride). Groups are derived from scenario descriptions by group_of
    (default: second word)."""
    exe = build_harness(harness)
    sc = list_scenarios(exe)
    g = {}
    for i, d in sc:
        k = group_of(d) if group_of else d.split()[1]
        g.setdefault(k, []).append(i)
    for name, bound, budget, stride in plan:
        if deadline is not None and deadline.expired():
            rep.capped("deadline before %s/%s" % (harness, name))
            continue
        if name not in g:
            rep.error("harness %s has no scenario group %s (groups: %s)" % (harness, name, sorted(g)))
            continue
        explore_all(rep, harness, g[name][::stride], bound=bound, budget_per_scenario=budget, deadline=deadline)
        rep.cov.setdefault("plan", []).append({"harness": harness, "group": name, "scenarios": len(g[name][::stride]), "of": len(g[name]), "bound": bound})


def build_seq(name):
    with Lock("vs-" + name):
        r = subprocess.run([os.path.join(VERIF, "vsched", "build_seq.sh"), name], stdout=subprocess.PIPE, stderr=subprocess.STDOUT, text=True)
        if r.returncode != 0:
            raise CheckError("harness %s does not build against the working tree:\n%s" % (name, r.stdout[-3000:]))
    return os.path.join(VS_OUT, name)


def _seq_job(arg):
    exe, variant, depth, max_states = arg
    cmd = [exe, "--variant", str(variant), "--depth", str(depth)]
    if max_states:
        cmd += ["--max-states", str(max_states)]
    try:
        r = subprocess.run(cmd, stdout=subprocess.PIPE, stderr=subprocess.PIPE, text=True, timeout=3000)
    except subprocess.TimeoutExpired:
        return {"variant": variant, "error": "timeout"}
    lines = [l for l in r.stdout.splitlines() if l.startswith("{")]
    if not lines:
        return {"variant": variant, "error": "no output rc=%s %s" % (r.returncode, r.stderr[-400:])}
    d = json.loads(lines[-1])
    d["variant_index"] = variant
    return d


def run_seq(rep, harness, jobs, classify=None):
    """jobs: list of (variant, depth, max_states). Explicit-state BFS over operation histories (seqmc.h)."""
    exe = build_seq(harness)
    for res in pmap_unordered(_seq_job, [(exe, v, d, m) for v, d, m in jobs]):
        if "error" in res:
            rep.error("%s variant %s: %s" % (harness, res.get("variant"), res["error"]))
            continue
        rep.add("states", res["states"])
        rep.add("transitions", res["transitions"])
        rep.add("traces_validated_against_impl", res["transitions"])
        rep.add("evaluations", res["transitions"])
        rep.cov.setdefault("seq_runs", []).append({"harness": harness, "variant": res["variant"], "depth": res.get("depth"), "max_depth_reached": res.get("max_depth"),
                                                   "states": res["states"], "transitions": res["transitions"], "capped": res.get("capped", False)})
        if res.get("capped"):
            rep.capped("%s %s capped at %d states" % (harness, res["variant"], res["states"]))
        if res.get("sample"):
            rep.sample({"harness": harness, "variant": res["variant"], "history => state": res["sample"][:300]}, cap=8)
        v = res.get("violation")
        if v:
            if classify:
                kf = classify(harness, res, v)
                if kf:
                    rep.known_finding(kf, v["history"])
                    continue
            # replay twice
            outs = []
            for _ in range(2):
                r = subprocess.run([exe, "--variant", str(res["variant_index"]), "--replay", v["raw"]], stdout=subprocess.PIPE, text=True)
                outs.append((r.returncode, r.stdout.strip()))
            if outs[0] != outs[1] or outs[0][0] != 1:
                rep.error("seq violation did not replay deterministically: %s" % (outs,))
                continue
            rep.violation("%s [%s]: after history %s: %s" % (harness, res["variant"], v["history"], v["why"]),
                          {"kind": "seqmc", "harness": harness, "variant": res["variant_index"], "history": v["history"], "raw": v["raw"], "why": v["why"]})


def replay_any(obj):
    if obj.get("kind") == "seqmc":
        exe = build_seq(obj["harness"])
        r = subprocess.run([exe, "--variant", str(obj["variant"]), "--replay", obj["raw"]], stdout=subprocess.PIPE, text=True)
        return r.returncode != 0, r.stdout.strip()
    return replay_vs(obj)
