// user-defined (stateful) functors for the lattice family of C12: a 5-point sign lattice and a 4-point chain,
// both enum ADTs (a branch is represented by its ordinal in alphabetical order of the branch names)
#include "souffle/RecordTable.h"
#include "souffle/SymbolTable.h"
extern "C" {
using souffle::RamDomain;
// Sign = Bottom{} | Negative{} | Positive{} | Top{} | Zero{}   -> 0,1,2,3,4
RamDomain sign_lub(souffle::SymbolTable*, souffle::RecordTable*, RamDomain a, RamDomain b) {
    if (a == 0) return b;
    if (b == 0) return a;
    if (a == b) return a;
    return 3;
}
RamDomain sign_glb(souffle::SymbolTable*, souffle::RecordTable*, RamDomain a, RamDomain b) {
    if (a == 3) return b;
    if (b == 3) return a;
    if (a == b) return a;
    return 0;
}
// Lvl = L0{} | L1{} | L2{} | L3{}  -> 0..3 (chain)
RamDomain lvl_lub(souffle::SymbolTable*, souffle::RecordTable*, RamDomain a, RamDomain b) { return a > b ? a : b; }
RamDomain lvl_glb(souffle::SymbolTable*, souffle::RecordTable*, RamDomain a, RamDomain b) { return a < b ? a : b; }
RamDomain lvl_up(souffle::SymbolTable*, souffle::RecordTable*, RamDomain a) { return a >= 3 ? 3 : a + 1; }
}

// C09: observation functor. mark(rule, a, b, c, d) appends one line to the file named by SOUFFLE_VERIF_LOG and returns 0.
#include <cstdio>
#include <cstdlib>
#include <mutex>
extern "C" {
souffle::RamDomain mark(souffle::SymbolTable*, souffle::RecordTable*, souffle::RamDomain rule, souffle::RamDomain a, souffle::RamDomain b,
        souffle::RamDomain c, souffle::RamDomain d) {
    static std::mutex m;
    static FILE* f = nullptr;
    std::lock_guard<std::mutex> g(m);
    if (!f) {
        const char* p = std::getenv("SOUFFLE_VERIF_LOG");
        f = std::fopen(p ? p : "/dev/null", "a");
    }
    if (f) {
        std::fprintf(f, "%d %d %d %d %d\n", (int)rule, (int)a, (int)b, (int)c, (int)d);
        std::fflush(f);
    }
    return 0;
}
}
