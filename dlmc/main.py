import argparse, importlib, json, os, sys, traceback
from .common import *


def main(argv):
    ap = argparse.ArgumentParser()
    ap.add_argument("pid")
    ap.add_argument("--tier", default=os.environ.get("VERIF_TIER", "quick"), choices=["quick", "thorough"])
    ap.add_argument("--replay")
    ap.add_argument("--no-build", action="store_true")
    a = ap.parse_args(argv)
    ensure_dirs()
    try:
        mod = importlib.import_module("dlmc.checks." + a.pid)
    except ModuleNotFoundError:
        print("no check for " + a.pid, file=sys.stderr)
        return 2
    try:
        if not a.no_build:
            bt = getattr(mod, "BUILD_TARGETS", ("souffle", "souffleprof"))
            if bt:
                vbuild(bt)
        if a.replay:
            with open(a.replay) as f:
                obj = json.load(f)
            bad, obs = mod.replay(obj)
            print("replay observation: " + obs[:2000])
            if bad:
                print("VIOLATION property=%s replay=%s" % (a.pid, a.replay))
                return 1
            return 0
        return mod.check(a.tier)
    except CheckError as e:
        print("CHECK-ERROR: %s" % e, file=sys.stderr)
        return 2
    except Exception:
        traceback.print_exc()
        return 2
