"""Further bounded-exhaustive families: mutrec, strat, arith, agg, rec, adt, str, shape.
Each function returns (cases, dbs).  Relation names of a case carry the suffix _<cid>; input relations are
shared per family."""
import itertools
from .dl import *
from .vals import U, F32
from . import ref
from .gen import Case, grounded, all_dbs_core, dbs_core_quick, dbs_core_thorough

X, Y, Z, W = Var("x"), Var("y"), Var("z"), Var("w")


def _edb_ae(P):
    P.rel("a", [("x", "number")], is_input=True)
    P.rel("e", [("x", "number"), ("y", "number")], is_input=True)


def _finish(cases):
    out = []
    for c in cases:
        try:
            ref.stratify(c.prog)
        except ref.NotStratifiable:
            continue
        out.append(c)
    return out


# ------------------------------------------------------------------ mutrec

def _bodies2(rels, x="x", y="y", z="z"):
    """Join shapes deriving H(x,y): single atoms R(x,y), R(y,x) and two-atom chains through z."""
    xs, ys, zs = Var(x), Var(y), Var(z)
    out = []
    for r in rels:
        out.append((Atom(r, [xs, ys]),))
        out.append((Atom(r, [ys, xs]),))
    firsts = [Atom(r, a) for r in rels for a in ([xs, zs], [zs, xs])]
    seconds = [Atom(r, a) for r in rels for a in ([zs, ys], [ys, zs])]
    for f in firsts:
        for s in seconds:
            out.append((f, s))
    return out


def family_mutrec(tier, start=0):
    """Two mutually recursive binary relations p,q over edge relation e: p has base rule p:-e; one recursive
    rule each; every pair of bodies from the join-shape alphabet such that p depends on q and q on p.
    Thorough: additionally bodies with three atoms (two joins) and a third relation r in the cycle."""
    cases = []
    cid = start
    rels = ["e", "P", "Q"]
    bodies = _bodies2(rels)
    for bq in bodies:
        if not any(a.rel == "P" for a in bq):
            continue
        for bp in bodies:
            if not any(a.rel == "Q" for a in bp):
                continue
            if tier == "quick":
                # quick: at most 3 atoms in total over the two bodies
                if len(bq) + len(bp) > 3:
                    continue
            P = Program()
            _edb_ae(P)
            p, q = "p_%d" % cid, "q_%d" % cid
            for n in (p, q):
                P.rel(n, [("x", "number"), ("y", "number")], is_output=True)
            m = {"rel:P": p, "rel:Q": q}
            P.rules.append(Rule([Atom(p, [X, Y])], [Atom("e", [X, Y])], None))
            r1 = rename(Rule([Atom("Q", [X, Y])], list(bq), None), m)
            r2 = rename(Rule([Atom("P", [X, Y])], list(bp), None), m)
            P.rules += [r1, r2]
            cases.append(Case(cid, "mutrec", P, show(r1) + "  " + show(r2)))
            cid += 1
    if tier != "quick":
        # three relations in a cycle p -> q -> r -> p, chain bodies only
        chain = [b for b in _bodies2(["e", "P", "Q", "R"]) if len(b) == 2]
        for bq in chain:
            if [a.rel for a in bq].count("P") != 1 or any(a.rel in ("Q", "R") for a in bq):
                continue
            for br in chain:
                if [a.rel for a in br].count("Q") != 1 or any(a.rel in ("P", "R") for a in br):
                    continue
                for bp in chain:
                    if not any(a.rel == "R" for a in bp) or any(a.rel == "Q" for a in bp):
                        continue
                    P = Program()
                    _edb_ae(P)
                    p, q, r = "p_%d" % cid, "q_%d" % cid, "r_%d" % cid
                    for n in (p, q, r):
                        P.rel(n, [("x", "number"), ("y", "number")], is_output=True)
                    m = {"rel:P": p, "rel:Q": q, "rel:R": r}
                    P.rules.append(Rule([Atom(p, [X, Y])], [Atom("e", [X, Y])], None))
                    rs = [rename(Rule([Atom(h, [X, Y])], list(b), None), m) for h, b in (("Q", bq), ("R", br), ("P", bp))]
                    P.rules += rs
                    cases.append(Case(cid, "mutrec3", P, "  ".join(show(x) for x in rs)))
                    cid += 1
    return _finish(cases)


def family_multirec(tier, start=0):
    """One relation, rules with two and three recursive atoms (non-linear recursion): exercises every delta
    version of a clause."""
    cases = []
    cid = start
    shapes = []
    v = [X, Y, Z, W]
    # p(x,y) :- p(x,z), p(z,y).   and variants with 2-3 recursive atoms / mixed with e
    two = [("P", "P"), ("P", "e"), ("e", "P")]
    three = [("P", "P", "P"), ("P", "e", "P"), ("P", "P", "e"), ("e", "P", "P")]
    for rs in two:
        for o1 in ([X, Z], [Z, X]):
            for o2 in ([Z, Y], [Y, Z]):
                shapes.append((Atom(rs[0], o1), Atom(rs[1], o2)))
    for rs in three:
        for o1 in ([X, Z], [Z, X]):
            for o2 in ([Z, W], [W, Z]):
                for o3 in ([W, Y], [Y, W]):
                    shapes.append((Atom(rs[0], o1), Atom(rs[1], o2), Atom(rs[2], o3)))
    extras = [(), (Cmp("!=", X, Y),), (Neg(Atom("a", [X])),)]
    for b in shapes:
        for ex in (extras if tier != "quick" else extras[:2]):
            P = Program()
            _edb_ae(P)
            p = "p_%d" % cid
            P.rel(p, [("x", "number"), ("y", "number")], is_output=True)
            P.rules.append(Rule([Atom(p, [X, Y])], [Atom("e", [X, Y])], None))
            r = rename(Rule([Atom("P", [X, Y])], list(b) + list(ex), None), {"rel:P": p})
            P.rules.append(r)
            cases.append(Case(cid, "multirec", P, show(r)))
            cid += 1
    return _finish(cases)


# ------------------------------------------------------------------ strat

def family_strat(tier, start=0, subset=None):
    """Chains of 3 (thorough: 4) unary strata s1..sk over a/1, e/2; each stratum picks one template over the
    earlier strata: negation, conjunction, count aggregate, recursive with negated lower stratum.
    Only the LAST stratum and s1 are outputs in half of the cases (so intermediate relations are expirable)."""
    cases = []
    cid = start

    def templates(i, names):
        me = names[i]
        prev = names[:i]
        out = []
        for j in prev:
            out.append(("neg", [Rule([Atom(me, [X])], [Atom("a", [X]), Neg(Atom(j, [X]))], None)]))
            out.append(("negdom", [Rule([Atom(me, [X])], [Atom("e", [X, Anon()]), Neg(Atom(j, [X]))], None)]))
            out.append(("cnt", [Rule([Atom(me, [Var("c")])], [Cmp("=", Var("c"), Agg("count", None, [Atom(j, [Anon()])]))], None)]))
            out.append(("cnt0", [Rule([Atom(me, [X])], [Atom("a", [X]), Cmp("=", Num(0), Agg("count", None, [Atom(j, [X])]))], None)]))
            out.append(("rec", [Rule([Atom(me, [X])], [Atom(j, [X])], None),
                                Rule([Atom(me, [Y])], [Atom(me, [X]), Atom("e", [X, Y])], None)]))
            for k in prev:
                if k != j:
                    out.append(("and", [Rule([Atom(me, [X])], [Atom(j, [X]), Atom(k, [X])], None)]))
                    out.append(("andnot", [Rule([Atom(me, [X])], [Atom(j, [X]), Neg(Atom(k, [X]))], None)]))
                    out.append(("recneg", [Rule([Atom(me, [X])], [Atom(j, [X])], None),
                                           Rule([Atom(me, [Y])], [Atom(me, [X]), Atom("e", [X, Y]), Neg(Atom(k, [Y]))], None)]))
        return out

    depth = 3
    quick_subset = ("neg", "cnt0", "rec", "andnot", "recneg")
    names0 = ["S%d" % i for i in range(depth + 1)]

    def rec(i, rules_so_far, tags):
        nonlocal cid
        if i > depth:
            for outs in ("all", "last"):
                P = Program()
                _edb_ae(P)
                names = ["s%d_%d" % (k, cid) for k in range(depth + 1)]
                m = {"rel:" + a: b for a, b in zip(names0, names)}
                for k, n in enumerate(names):
                    P.rel(n, [("x", "number")], is_output=(outs == "all" or k == depth))
                P.rules.append(Rule([Atom(names[0], [X])], [Atom("e", [X, Anon()])], None))
                for r in rules_so_far:
                    P.rules.append(rename(r, m))
                cases.append(Case(cid, "strat", P, "strata " + "/".join(tags) + " outputs=" + outs))
                cid += 1
            return
        for tag, rules in templates(i, names0):
            if subset is not None:
                if tag not in subset:
                    continue
            elif tier == "quick" and tag not in quick_subset:
                continue
            rec(i + 1, rules_so_far + rules, tags + [tag])

    rec(1, [], [])
    return _finish(cases)


# ------------------------------------------------------------------ arith

BIN_OPS_INT = ["+", "-", "*", "/", "%", "^", "band", "bor", "bxor", "bshl", "bshr", "bshru", "land", "lor", "lxor", "max", "min"]
UN_OPS_INT = ["neg", "bnot", "lnot"]


def family_arith(tier, start=0, part="safe"):
    """Functor expressions in every syntactic position of a rule: head argument, body-atom argument, constraint
    operand, negated-atom argument, aggregate target; every integer operator; thorough: nested depth 2 and
    unsigned/float columns.  Inputs n(x) over small numbers."""
    cases = []
    cid = start

    def exprs(depth):
        base = [X, Num(1), Num(2)]
        out = []
        for op in BIN_OPS_INT:
            for l, r in ((X, Y), (X, Num(2)), (Num(3), X)):
                out.append(Fn(op, [l, r]))
        for op in UN_OPS_INT:
            out.append(Fn(op, [X]))
        if depth >= 2:
            for op in ("+", "*", "-", "band", "max"):
                for inner in (Fn("+", [X, Num(1)]), Fn("*", [Y, Num(2)]), Fn("neg", [Y]), Fn("bshl", [X, Num(1)])):
                    out.append(Fn(op, [inner, Y]))
                    out.append(Fn(op, [X, inner]))
        return out

    E = exprs(1 if tier == "quick" else 2)
    for ex in E:
        uses_y = "y" in vars_of(ex)
        gens = [Atom("n", [X])] + ([Atom("n", [Y])] if uses_y else [])
        positions = [
            ("head", lambda r: [Rule([Atom(r, [X, ex])], gens, None)]),
            ("cmp", lambda r: [Rule([Atom(r, [X, Z])], gens + [Atom("n", [Z]), Cmp("<", ex, Z)], None)]),
            ("eqbind", lambda r: [Rule([Atom(r, [X, Z])], gens + [Cmp("=", Z, ex)], None)]),
            ("atomarg", lambda r: [Rule([Atom(r, [X, Num(0)])], gens + [Atom("n", [ex])], None)]),
            ("negarg", lambda r: [Rule([Atom(r, [X, Num(0)])], gens + [Neg(Atom("n", [ex]))], None)]),
        ]
        if not uses_y:
            positions.append(("aggtarget", lambda r: [Rule([Atom(r, [Num(0), Z])], [Cmp("=", Z, Agg("sum", ex, [Atom("n", [X])]))], None)]))
        for pname, mk in positions:
            P = Program()
            P.rel("n", [("x", "number")], is_input=True)
            r = "r_%d" % cid
            P.rel(r, [("x", "number"), ("y", "number")], is_output=True)
            P.rules += mk(r)
            cases.append(Case(cid, "arith", P, pname + ": " + show(P.rules[-1])))
            cid += 1
    dbs = [{"n": tuple((v,) for v in vs)} for vs in ([], [0], [1, 2], [0, 1, 2, 3], [-2, -1, 0, 1, 5], [3, 4, 7, 31, 32])]
    risky_dbs = [{"n": tuple((v,) for v in vs)} for vs in ([], [1], [1, 2], [1, 2, 3, 5], [2, 3, 7])]
    cases = _finish(cases)
    risky = [c for c in cases if any(op in c.desc for op in (" / ", " % ", " ^ "))]
    safe = [c for c in cases if c not in risky]
    if part == "safe":
        return safe, dbs
    if part == "risky":
        return risky, risky_dbs
    return safe, dbs


# ------------------------------------------------------------------ agg

def family_agg(tier, start=0):
    """Aggregates count/sum/min/max over one or two inner atoms, grouped (outer variable injected) or not,
    with inner constraints / negation, in binding position and in constraint position, including empty sets;
    aggregates over IDB relations of a lower stratum; thorough: nested aggregates, float mean/sum."""
    cases = []
    cid = start
    inner_bodies = [
        ("e(x,y)", [Atom("e", [X, Y])], True),
        ("e(y,x)", [Atom("e", [Y, X])], True),
        ("e(x,y),a(y)", [Atom("e", [X, Y]), Atom("a", [Y])], True),
        ("e(x,y),y!=0", [Atom("e", [X, Y]), Cmp("!=", Y, Num(0))], True),
        ("e(x,y),!a(y)", [Atom("e", [X, Y]), Neg(Atom("a", [Y]))], True),
        ("e(x,y),x<y", [Atom("e", [X, Y]), Cmp("<", X, Y)], True),
        ("e(_,y)", [Atom("e", [Anon(), Y])], False),
        ("a(y)", [Atom("a", [Y])], False),
        ("e(x,z),e(z,y)", [Atom("e", [X, Z]), Atom("e", [Z, Y])], True),
    ]
    targets = [("y", Y), ("y+1", Fn("+", [Y, Num(1)])), ("y*x", Fn("*", [Y, X]))]
    for bname, body, has_x in inner_bodies:
        for op in ("count", "sum", "min", "max"):
            for tname, tgt in (targets if op != "count" else [("", None)]):
                if tgt is not None and "x" in vars_of(tgt) and not has_x:
                    continue
                agg = Agg(op, tgt, body)
                variants = []
                if has_x:
                    variants.append(("grouped", lambda r: Rule([Atom(r, [X, Var("c")])], [Atom("a", [X]), Cmp("=", Var("c"), agg)], None)))
                    variants.append(("grouped-cmp", lambda r: Rule([Atom(r, [X, Num(0)])], [Atom("a", [X]), Cmp("<", Num(0), agg)], None)))
                    if tier != "quick":
                        variants.append(("grouped-eq0", lambda r: Rule([Atom(r, [X, Num(0)])], [Atom("a", [X]), Cmp("=", agg, Num(0))], None)))
                        variants.append(("grouped-e", lambda r: Rule([Atom(r, [X, Var("c")])], [Atom("e", [Anon(), X]), Cmp("=", Var("c"), agg)], None)))
                else:
                    variants.append(("global", lambda r: Rule([Atom(r, [Num(0), Var("c")])], [Cmp("=", Var("c"), agg)], None)))
                    variants.append(("global-join", lambda r: Rule([Atom(r, [Z, Var("c")])], [Atom("a", [Z]), Cmp("=", Var("c"), agg), Cmp("<=", Z, Var("c"))], None)))
                if has_x and "x" not in (vars_of(tgt) if tgt is not None else []):
                    # ungrouped use of a body that mentions x: x is then local to the aggregate
                    variants.append(("local-x", lambda r: Rule([Atom(r, [Num(0), Var("c")])], [Cmp("=", Var("c"), agg)], None)))
                for vname, mk in variants:
                    P = Program()
                    _edb_ae(P)
                    r = "r_%d" % cid
                    P.rel(r, [("x", "number"), ("c", "number")], is_output=True)
                    P.rules.append(mk(r))
                    cases.append(Case(cid, "agg", P, vname + ": " + show(P.rules[-1])))
                    cid += 1
    # aggregates over an IDB relation computed by a recursive lower stratum
    for op in ("count", "sum", "min", "max"):
        for grouped in (True, False):
            P = Program()
            _edb_ae(P)
            t, r = "t_%d" % cid, "r_%d" % cid
            P.rel(t, [("x", "number"), ("y", "number")])
            P.rel(r, [("x", "number"), ("c", "number")], is_output=True)
            P.rules.append(Rule([Atom(t, [X, Y])], [Atom("e", [X, Y])], None))
            P.rules.append(Rule([Atom(t, [X, Y])], [Atom(t, [X, Z]), Atom("e", [Z, Y])], None))
            agg = Agg(op, None if op == "count" else Y, [Atom(t, [X, Y])])
            if grouped:
                P.rules.append(Rule([Atom(r, [X, Var("c")])], [Atom("a", [X]), Cmp("=", Var("c"), agg)], None))
            else:
                P.rules.append(Rule([Atom(r, [Num(0), Var("c")])], [Cmp("=", Var("c"), agg)], None))
            cases.append(Case(cid, "agg-idb", P, show(P.rules[-1])))
            cid += 1
    if tier != "quick":
        # nested aggregates depth 2
        for op1 in ("count", "sum", "max"):
            for op2 in ("count", "sum", "min"):
                inner = Agg(op2, None if op2 == "count" else Z, [Atom("e", [Y, Z])])
                outer = Agg(op1, None if op1 == "count" else Var("k"), [Atom("e", [X, Y]), Cmp("=", Var("k"), inner)])
                P = Program()
                _edb_ae(P)
                r = "r_%d" % cid
                P.rel(r, [("x", "number"), ("c", "number")], is_output=True)
                P.rules.append(Rule([Atom(r, [X, Var("c")])], [Atom("a", [X]), Cmp("=", Var("c"), outer)], None))
                cases.append(Case(cid, "agg-nested", P, show(P.rules[-1])))
                cid += 1
    return _finish(cases)


def family_agg3(tier, start=0):
    """Aggregates over a TERNARY relation t3(x,y,z): the aggregated column, the bound (grouping) column and an
    unbound wildcard/local column in every relative position, so that the index order differs from the order of
    the aggregated column (min/max early-exit, range bounds on indexed aggregates)."""
    import itertools as it
    cases = []
    cid = start
    cols = [X, Y, Z]
    for perm in it.permutations(range(3)):
        # perm: position of (group var x, free var, aggregated var z)
        for free_kind in ("anon", "local"):
            for op in ("min", "max", "sum", "count"):
                for grouped in (True, False):
                    args = [None, None, None]
                    args[perm[0]] = X if grouped else (Anon() if free_kind == "anon" else Var("w"))
                    args[perm[1]] = Anon() if free_kind == "anon" else Y
                    args[perm[2]] = Z
                    agg = Agg(op, None if op == "count" else Z, [Atom("t3", args)])
                    P = Program()
                    P.rel("a", [("x", "number")], is_input=True)
                    P.rel("t3", [("x", "number"), ("y", "number"), ("z", "number")], is_input=True)
                    r = "r_%d" % cid
                    P.rel(r, [("x", "number"), ("c", "number")], is_output=True)
                    if grouped:
                        P.rules.append(Rule([Atom(r, [X, Var("c")])], [Atom("a", [X]), Cmp("=", Var("c"), agg)], None))
                    else:
                        P.rules.append(Rule([Atom(r, [Num(0), Var("c")])], [Cmp("=", Var("c"), agg)], None))
                    cases.append(Case(cid, "agg3", P, show(P.rules[-1])))
                    cid += 1
    # two bound columns, constant column, inner comparison on the free column
    extra = [
        [Atom("a", [X]), Atom("a", [Y]), Cmp("=", Var("c"), Agg("min", Z, [Atom("t3", [X, Y, Z])]))],
        [Atom("a", [X]), Cmp("=", Var("c"), Agg("min", Z, [Atom("t3", [X, Num(1), Z])]))],
        [Atom("a", [X]), Cmp("=", Var("c"), Agg("max", Z, [Atom("t3", [Num(1), X, Z])]))],
        [Atom("a", [X]), Cmp("=", Var("c"), Agg("min", Z, [Atom("t3", [X, Y, Z]), Cmp("<", Num(0), Y)]))],
        [Atom("a", [X]), Cmp("=", Var("c"), Agg("max", Z, [Atom("t3", [X, Y, Z]), Cmp("<", Y, Z)]))],
        [Atom("a", [X]), Cmp("=", Var("c"), Agg("min", Y, [Atom("t3", [X, Y, Z]), Atom("a", [Z])]))],
    ]
    for body in extra:
        P = Program()
        P.rel("a", [("x", "number")], is_input=True)
        P.rel("t3", [("x", "number"), ("y", "number"), ("z", "number")], is_input=True)
        r = "r_%d" % cid
        P.rel(r, [("x", "number"), ("c", "number")], is_output=True)
        P.rules.append(Rule([Atom(r, [X, Var("c")])], body, None))
        cases.append(Case(cid, "agg3", P, show(P.rules[-1])))
        cid += 1
    dbs = []
    for a in (((0,), (1,), (2,)),):
        for rows in ((), ((1, 2, 9), (1, 3, 4), (1, 4, 7)), ((0, 0, 5), (0, 1, 3), (1, 0, 2), (1, 1, 8), (1, 2, 1), (2, 2, 2)),
                     ((2, 1, 1), (1, 1, 9), (1, 2, 0), (0, 2, 4), (0, 1, 6), (1, 0, 5))):
            dbs.append({"a": a, "t3": rows})
    return _finish(cases), dbs


def family_aggtyped(tier, start=0):
    """sum/min/max/mean/count at unsigned and float column types (exactly summable values)."""
    cases = []
    cid = start
    for ty, ops in (("unsigned", ("sum", "min", "max", "count")), ("float", ("sum", "min", "max", "mean", "count"))):
        for op in ops:
            for grouped in (True, False):
                P = Program()
                g = "g%s" % ty[0]
                P.rel(g, [("k", "number"), ("v", ty)], is_input=True)
                P.rel("a", [("x", "number")], is_input=True)
                r = "r_%d" % cid
                rt = "number" if op == "count" else ty
                P.rel(r, [("k", "number"), ("c", rt)], is_output=True)
                agg = Agg(op, None if op == "count" else Y, [Atom(g, [X, Y])])
                if grouped:
                    body = [Atom("a", [X]), Cmp("=", Var("c"), agg)]
                    P.rules.append(Rule([Atom(r, [X, Var("c")])], body, None))
                else:
                    P.rules.append(Rule([Atom(r, [Num(0), Var("c")])], [Cmp("=", Var("c"), agg)], None))
                cases.append(Case(cid, "aggtyped", P, show(P.rules[-1]) + " [" + ty + "]"))
                cid += 1
    dbs = []
    for a in ((), ((0,), (1,), (2,))):
        for rows in ((), ((0, 1), (0, 2), (1, 4)), ((0, 3), (1, 3), (1, 0), (1, 8), (2, 2))):
            dbs.append({"a": a, "gu": tuple((k, U(v)) for k, v in rows) + (((1, U(4294967295)),) if len(rows) > 3 else ()),
                        "gf": tuple((k, F32(v / 2.0)) for k, v in rows)})
    return _finish(cases), dbs


# ------------------------------------------------------------------ records and ADTs

def family_rec(tier, start=0):
    """Records: pack in head, unpack in body (pattern, via equality, nested), nil, recursive lists with a
    termination guard, records in negation, equality between records."""
    cases = []
    cid = start
    types = [".type Pr = [a:number, b:number]", ".type Ls = [h:number, t:Ls]", ".type Nn = [p:Pr, n:number]"]
    tinfo = {"Pr": ("record", ["number", "number"]), "Ls": ("record", ["number", "Ls"]), "Nn": ("record", ["Pr", "number"])}
    R = Var("r")
    T = Var("t")

    def mk(build):
        nonlocal cid
        P = Program()
        P.types += types
        P.typeinfo.update(tinfo)
        _edb_ae(P)
        sfx = "_%d" % cid
        desc = build(P, sfx)
        cases.append(Case(cid, "rec", P, desc))
        cid += 1

    def pr_base(P, sfx):
        P.rel("rp" + sfx, [("r", "Pr")], is_output=True)
        P.rules.append(Rule([Atom("rp" + sfx, [Rec([X, Y])])], [Atom("e", [X, Y])], None))

    # pack only
    def b1(P, s):
        pr_base(P, s)
        return "pack: " + show(P.rules[-1])
    mk(b1)
    unpack_bodies = [
        ("pattern", lambda s: [Atom("rp" + s, [Rec([X, Y])])]),
        ("pattern-anon", lambda s: [Atom("rp" + s, [Rec([X, Anon()])]), Atom("a", [Y])]),
        ("pattern-const", lambda s: [Atom("rp" + s, [Rec([X, Num(0)])]), Atom("a", [Y])]),
        ("pattern-same", lambda s: [Atom("rp" + s, [Rec([X, X])]), Atom("a", [Y])]),
        ("via-eq", lambda s: [Atom("rp" + s, [R]), Cmp("=", R, Rec([X, Y]))]),
        ("via-eq-rev", lambda s: [Atom("rp" + s, [R]), Cmp("=", Rec([X, Y]), R)]),
        ("bound-then-pack", lambda s: [Atom("e", [X, Y]), Atom("rp" + s, [Rec([Y, X])])]),
        ("neg", lambda s: [Atom("e", [X, Y]), Neg(Atom("rp" + s, [Rec([Y, X])]))]),
        ("two-records-eq", lambda s: [Atom("rp" + s, [R]), Atom("rp" + s, [T]), Cmp("=", R, Rec([X, Y])), Cmp("=", T, Rec([Y, X]))]),
        ("records-neq", lambda s: [Atom("rp" + s, [R]), Atom("rp" + s, [T]), Cmp("!=", R, T), Cmp("=", R, Rec([X, Anon()])), Cmp("=", T, Rec([Y, Anon()]))]),
    ]
    for name, body in unpack_bodies:
        def b(P, s, body=body, name=name):
            pr_base(P, s)
            P.rel("u" + s, [("x", "number"), ("y", "number")], is_output=True)
            P.rules.append(Rule([Atom("u" + s, [X, Y])], body(s), None))
            return name + ": " + show(P.rules[-1])
        mk(b)

    # nested records
    def b3(P, s):
        P.rel("nn" + s, [("r", "Nn")], is_output=True)
        P.rules.append(Rule([Atom("nn" + s, [Rec([Rec([X, Y]), X])])], [Atom("e", [X, Y])], None))
        P.rel("u" + s, [("x", "number"), ("y", "number")], is_output=True)
        P.rules.append(Rule([Atom("u" + s, [Y, Z])], [Atom("nn" + s, [Rec([Rec([Anon(), Y]), Z])])], None))
        return "nested: " + show(P.rules[-1])
    mk(b3)

    def b3b(P, s):
        P.rel("nn" + s, [("r", "Nn")], is_output=True)
        P.rules.append(Rule([Atom("nn" + s, [Rec([Nil(), X])])], [Atom("a", [X])], None))
        P.rules.append(Rule([Atom("nn" + s, [Rec([Rec([X, Y]), X])])], [Atom("e", [X, Y])], None))
        P.rel("u" + s, [("x", "number"), ("y", "number")], is_output=True)
        P.rules.append(Rule([Atom("u" + s, [X, Num(0)])], [Atom("nn" + s, [Rec([Nil(), X])])], None))
        P.rules.append(Rule([Atom("u" + s, [X, Num(1)])], [Atom("nn" + s, [Rec([R, X])]), Cmp("!=", R, Nil())], None))
        return "nested-nil: " + show(P.rules[-1])
    mk(b3b)

    # lists with termination guard
    for guard in ("<", ">"):
        def b4(P, s, guard=guard):
            P.rel("l" + s, [("l", "Ls")], is_output=True)
            P.rules.append(Rule([Atom("l" + s, [Rec([X, Nil()])])], [Atom("a", [X])], None))
            P.rules.append(Rule([Atom("l" + s, [Rec([X, T])])], [Atom("a", [X]), Atom("l" + s, [T]), Cmp("=", T, Rec([Y, Anon()])), Cmp(guard, X, Y)], None))
            P.rel("len" + s, [("l", "Ls"), ("n", "number")], is_output=True)
            P.rules.append(Rule([Atom("len" + s, [Rec([X, Nil()]), Num(1)])], [Atom("l" + s, [Rec([X, Nil()])])], None))
            P.rules.append(Rule([Atom("len" + s, [Rec([X, T]), Fn("+", [Var("n"), Num(1)])])],
                                [Atom("l" + s, [Rec([X, T])]), Atom("len" + s, [T, Var("n")])], None))
            return "lists guard " + guard
        mk(b4)
    return _finish(cases)


def family_adt(tier, start=0):
    cases = []
    cid = start
    types = [".type Tr = N {x:number} | B {l:Tr, r:Tr} | E {} | P2 {x:number, s:symbol}", ".type En = Red {} | Green {} | Blue {}"]
    tinfo = {"Tr": ("adt", [("N", ["number"]), ("B", ["Tr", "Tr"]), ("E", []), ("P2", ["number", "symbol"])]),
             "En": ("adt", [("Red", []), ("Green", []), ("Blue", [])])}
    T = Var("t")

    def mk(build):
        nonlocal cid
        P = Program()
        P.types += types
        P.typeinfo.update(tinfo)
        _edb_ae(P)
        sfx = "_%d" % cid
        desc = build(P, sfx)
        cases.append(Case(cid, "adt", P, desc))
        cid += 1

    def base(P, s):
        P.rel("t" + s, [("t", "Tr")], is_output=True)
        P.rules.append(Rule([Atom("t" + s, [Adt("N", [X])])], [Atom("a", [X])], None))
        P.rules.append(Rule([Atom("t" + s, [Adt("E", [])])], [], None))
        P.rules.append(Rule([Atom("t" + s, [Adt("B", [Adt("N", [X]), Adt("N", [Y])])])], [Atom("e", [X, Y])], None))
        P.rules.append(Rule([Atom("t" + s, [Adt("P2", [X, Sym("k")])])], [Atom("e", [X, X])], None))

    bodies = [
        ("match-N", lambda s: [Atom("t" + s, [Adt("N", [X])]), Atom("a", [Y])]),
        ("match-B", lambda s: [Atom("t" + s, [Adt("B", [Adt("N", [X]), Adt("N", [Y])])])]),
        ("match-B-any", lambda s: [Atom("t" + s, [Adt("B", [T, Anon()])]), Cmp("=", T, Adt("N", [X])), Atom("a", [Y])]),
        ("match-E", lambda s: [Atom("t" + s, [Adt("E", [])]), Atom("e", [X, Y])]),
        ("match-P2", lambda s: [Atom("t" + s, [Adt("P2", [X, Sym("k")])]), Atom("a", [Y])]),
        ("neq", lambda s: [Atom("t" + s, [T]), Cmp("!=", T, Adt("E", [])), Cmp("=", T, Adt("N", [X])), Atom("a", [Y])]),
        ("neg", lambda s: [Atom("e", [X, Y]), Neg(Atom("t" + s, [Adt("N", [Y])]))]),
    ]
    for name, body in bodies:
        def b(P, s, body=body, name=name):
            base(P, s)
            P.rel("u" + s, [("x", "number"), ("y", "number")], is_output=True)
            P.rules.append(Rule([Atom("u" + s, [X, Y])], body(s), None))
            return name + ": " + show(P.rules[-1])
        mk(b)

    def en(P, s):
        P.rel("c" + s, [("x", "number"), ("c", "En")], is_output=True)
        P.rules.append(Rule([Atom("c" + s, [X, Adt("Red", [])])], [Atom("a", [X])], None))
        P.rules.append(Rule([Atom("c" + s, [X, Adt("Blue", [])])], [Atom("e", [X, Anon()])], None))
        P.rel("u" + s, [("x", "number"), ("y", "number")], is_output=True)
        P.rules.append(Rule([Atom("u" + s, [X, Y])], [Atom("c" + s, [X, Adt("Red", [])]), Atom("c" + s, [Y, Adt("Blue", [])])], None))
        return "enum: " + show(P.rules[-1])
    mk(en)
    return _finish(cases)


# ------------------------------------------------------------------ strings

def family_str(tier, start=0):
    cases = []
    cid = start
    S, S2 = Var("s"), Var("t")
    N = Var("n")
    exprs = [
        ("cat", "symbol", Fn("cat", [S, S2]), True),
        ("cat3", "symbol", Fn("cat", [S, Sym("-"), S2]), True),
        ("strlen", "number", Fn("strlen", [S]), False),
        ("substr", "symbol", Fn("substr", [S, Num(1), Num(2)]), False),
        ("substr0", "symbol", Fn("substr", [S, Num(0), Num(1)]), False),
        ("substr-len", "symbol", Fn("substr", [S, Num(0), Fn("strlen", [S2])]), True),
        ("to_string", "symbol", Fn("to_string", [Fn("strlen", [S])]), False),
        ("cat-tostring", "symbol", Fn("cat", [S, Fn("to_string", [Fn("+", [Fn("strlen", [S]), Num(1)])])]), False),
        ("min", "symbol", Fn("min", [S, S2]), True),
        ("max", "symbol", Fn("max", [S, S2]), True),
        # constants with carriage returns / line feeds (observed through their length: the default output format is line based)
        ("strlen-crlf", "number", Fn("strlen", [Fn("cat", [S, Sym("\r\n")])]), False),
        ("strlen-cr-const", "number", Fn("strlen", [Sym("a\rb\r\nc\n")]), False),
        ("strlen-tab-quote", "number", Fn("strlen", [Fn("cat", [Sym("\t\"\\"), S])]), False),
    ]
    for name, ty, ex, two in exprs:
        P = Program()
        P.rel("w", [("s", "symbol")], is_input=True)
        r = "r_%d" % cid
        P.rel(r, [("s", "symbol"), ("v", ty)], is_output=True)
        P.rules.append(Rule([Atom(r, [S, ex])], [Atom("w", [S])] + ([Atom("w", [S2])] if two else []), None))
        cases.append(Case(cid, "str", P, name + ": " + show(P.rules[-1])))
        cid += 1
    conds = [
        ("contains", [Atom("w", [S]), Atom("w", [S2]), Contains(S2, S)]),
        ("contains-const", [Atom("w", [S]), Atom("w", [S2]), Contains(Sym("a"), S)]),
        ("match", [Atom("w", [S]), Atom("w", [S2]), Match(Sym("a.*"), S)]),
        ("match-digits", [Atom("w", [S]), Atom("w", [S2]), Match(Sym("[0-9]+"), S)]),
        ("contains-cr", [Atom("w", [S]), Atom("w", [S2]), Contains(Sym("\r"), Fn("cat", [S, Sym("\r\n"), S2]))]),
        ("lt", [Atom("w", [S]), Atom("w", [S2]), Cmp("<", S, S2)]),
        ("le", [Atom("w", [S]), Atom("w", [S2]), Cmp("<=", S, S2)]),
        ("neq", [Atom("w", [S]), Atom("w", [S2]), Cmp("!=", S, S2)]),
        ("eq-cat", [Atom("w", [S]), Atom("w", [S2]), Cmp("=", S, Fn("cat", [S2, Sym("b")]))]),
        ("strlen-cmp", [Atom("w", [S]), Atom("w", [S2]), Cmp("<", Fn("strlen", [S]), Fn("strlen", [S2]))]),
        ("neg-cat", [Atom("w", [S]), Atom("w", [S2]), Neg(Atom("w", [Fn("cat", [S, S2])]))]),
        ("atom-cat", [Atom("w", [S]), Atom("w", [S2]), Atom("w", [Fn("cat", [S, S2])])]),
    ]
    for name, body in conds:
        P = Program()
        P.rel("w", [("s", "symbol")], is_input=True)
        r = "r_%d" % cid
        P.rel(r, [("s", "symbol"), ("v", "symbol")], is_output=True)
        P.rules.append(Rule([Atom(r, [S, S2])], body, None))
        cases.append(Case(cid, "str", P, name + ": " + show(P.rules[-1])))
        cid += 1
    # symbol aggregates
    for op in ("count",):     # min/max over symbols are rejected by souffle's type system
        P = Program()
        P.rel("w", [("s", "symbol")], is_input=True)
        r = "r_%d" % cid
        P.rel(r, [("s", "symbol" if op != "count" else "number")], is_output=True)
        P.rules.append(Rule([Atom(r, [Var("c")])], [Cmp("=", Var("c"), Agg(op, None if op == "count" else S, [Atom("w", [S])]))], None))
        cases.append(Case(cid, "str", P, "agg: " + show(P.rules[-1])))
        cid += 1
    dbs = [{"w": tuple((s,) for s in ws)} for ws in ([], ["a"], ["", "a", "ab"], ["a", "ab", "b", "abb", "10", "9"], ["b1", "ab", "a", "aa", "1"])]
    return _finish(cases), dbs


# ------------------------------------------------------------------ shape: disjunction, multiple heads, range

def family_shape(tier, start=0):
    cases = []
    cid = start

    def add(rules, desc, outs=("r",), decl=None):
        nonlocal cid
        P = Program()
        _edb_ae(P)
        s = "_%d" % cid
        m = {"rel:r": "r" + s, "rel:r2": "r2" + s}
        P.rel("r" + s, decl or [("x", "number")], is_output=True)
        P.rel("r2" + s, [("x", "number")], is_output=True)
        for r in rules:
            P.rules.append(rename(r, m))
        cases.append(Case(cid, "shape", P, desc + ": " + " ".join(show(r) for r in P.rules)))
        cid += 1

    A = lambda *t: Atom("a", list(t))
    E = lambda *t: Atom("e", list(t))
    # disjunctions
    alts = [[E(X, Anon())], [E(Anon(), X)], [A(X)], [E(X, X)], [Neg(A(X))], [Cmp("<", X, Num(1))]]
    for i, a1 in enumerate(alts):
        for a2 in alts[i + 1:]:
            add([Rule([Atom("r", [X])], [E(X, Anon()) if a1[0].__class__ is not Atom or True else A(X), Disj([a1, a2])], None)], "disj")
            add([Rule([Atom("r", [X])], [Disj([a1 if a1[0].__class__ is Atom else [A(X)] + a1, a2 if a2[0].__class__ is Atom else [A(X)] + a2])], None)], "disj-top")
    add([Rule([Atom("r", [X])], [A(X), Disj([[E(X, Y), A(Y)], [E(Y, X), Neg(A(Y))]])], None)], "disj-local-vars")
    add([Rule([Atom("r", [X])], [Disj([[A(X)], [E(X, Anon())]]), Disj([[E(Anon(), X)], [Cmp("=", X, Num(0))]])], None)], "disj-two")
    add([Rule([Atom("r", [X])], [A(X), Disj([[E(X, Anon())], [Disj([[E(Anon(), X)], [Cmp("=", X, Num(0))]])]])], None)], "disj-nested")
    # multiple heads
    add([Rule([Atom("r", [X]), Atom("r2", [X])], [A(X)], None)], "multihead")
    add([Rule([Atom("r", [X]), Atom("r2", [Y])], [E(X, Y)], None)], "multihead-2")
    add([Rule([Atom("r", [X]), Atom("r2", [Fn("+", [X, Num(1)])])], [E(X, Anon()), Neg(A(X))], None)], "multihead-3")
    add([Rule([Atom("r", [X])], [A(X)], None), Rule([Atom("r", [Y]), Atom("r2", [X])], [Atom("r", [X]), E(X, Y)], None)], "multihead-rec")
    # ranges
    rngs = [
        Fn("range", [Num(0), Num(3)]), Fn("range", [Num(3), Num(0)]), Fn("range", [Num(0), Num(0)]),
        Fn("range", [Num(0), Num(7), Num(2)]), Fn("range", [Num(7), Num(0), Num(-3)]), Fn("range", [Num(0), Num(5), Num(0)]),
        Fn("range", [Num(0), Num(5), Num(-1)]), Fn("range", [Num(-2), Num(2)]),
    ]
    for rg in rngs:
        add([Rule([Atom("r", [Y])], [Cmp("=", Y, rg)], None)], "range-const")
    for rg in (Fn("range", [X, Fn("+", [X, Num(2)])]), Fn("range", [Num(0), X]), Fn("range", [X, Num(0)]), Fn("range", [Num(0), Num(4), Fn("+", [X, Num(1)])])):
        add([Rule([Atom("r", [Y])], [A(X), Cmp("=", Y, rg)], None)], "range-var")
        add([Rule([Atom("r", [Y])], [A(X), Cmp("=", Y, rg), Neg(A(Y))], None)], "range-var-neg")
    add([Rule([Atom("r", [Fn("+", [Y, Z])])], [Cmp("=", Y, Fn("range", [Num(0), Num(3)])), Cmp("=", Z, Fn("range", [Num(0), Num(20), Num(10)]))], None)], "range-two")
    add([Rule([Atom("r", [Var("c")])], [Cmp("=", Var("c"), Agg("sum", Y, [Cmp("=", Y, Fn("range", [Num(0), Num(5)]))]))], None)], "range-in-agg")
    return _finish(cases)


def family_rangetyped(tier, start=0):
    cases = []
    cid = start
    specs = [
        ("unsigned", [Fn("range", [Uns(0), Uns(3)]), Fn("range", [Uns(3), Uns(0)]), Fn("range", [Uns(1), Uns(8), Uns(3)]), Fn("range", [Uns(2), Uns(2)])]),
        ("float", [Fn("range", [Flt(0.0), Flt(2.0)]), Fn("range", [Flt(0.5), Flt(2.0), Flt(0.5)]), Fn("range", [Flt(2.0), Flt(0.0), Flt(-0.5)]), Fn("range", [Flt(2.0), Flt(0.0)])]),
    ]
    for ty, rgs in specs:
        for rg in rgs:
            P = Program()
            P.rel("a", [("x", "number")], is_input=True)
            r = "r_%d" % cid
            P.rel(r, [("x", ty)], is_output=True)
            P.rules.append(Rule([Atom(r, [Y])], [Cmp("=", Y, rg)], None))
            cases.append(Case(cid, "rangetyped", P, show(P.rules[-1])))
            cid += 1
    return _finish(cases), [{"a": ()}]


def family_nullary(tier, start=0):
    """Nullary relations (propositions) and disconnected existential atoms inside recursive components, in every position
    of the recursive rule body (first / middle / last SCC atom), positive and negated from lower strata."""
    cases = []
    cid = start

    def add(build, desc):
        nonlocal cid
        P = Program()
        _edb_ae(P)
        s = "_%d" % cid
        build(P, s)
        cases.append(Case(cid, "nullary", P, desc + ": " + " ".join(show(r) for r in P.rules[-2:])))
        cid += 1

    def rels(P, s, extra=()):
        P.rel("p" + s, [("x", "number"), ("y", "number")], is_output=True)
        P.rel("f" + s, [], is_output=True)
        for n, ar in extra:
            P.rel(n + s, [("x", "number")] * ar, is_output=True)

    # proposition in the SCC, as first / last / middle SCC atom of the recursive rule
    for pos in ("first", "last", "middle"):
        def b(P, s, pos=pos):
            rels(P, s)
            p, f = "p" + s, "f" + s
            P.rules.append(Rule([Atom(p, [X, Y])], [Atom("e", [X, Y])], None))
            P.rules.append(Rule([Atom(f, [])], [Atom(p, [X, Y]), Cmp("<", Y, X)], None))
            body = {"first": [Atom(f, []), Atom(p, [X, Y]), Atom("e", [Y, Z])],
                    "last": [Atom(p, [X, Y]), Atom("e", [Y, Z]), Atom(f, [])],
                    "middle": [Atom(p, [X, Y]), Atom(f, []), Atom("e", [Y, Z])]}[pos]
            P.rules.append(Rule([Atom(p, [X, Z])], body, None))
        add(b, "proposition-" + pos)
    # two recursive atoms + proposition
    def b2(P, s):
        rels(P, s)
        p, f = "p" + s, "f" + s
        P.rules.append(Rule([Atom(p, [X, Y])], [Atom("e", [X, Y])], None))
        P.rules.append(Rule([Atom(f, [])], [Atom(p, [X, X])], None))
        P.rules.append(Rule([Atom(p, [X, Z])], [Atom(p, [X, Y]), Atom(p, [Y, Z]), Atom(f, [])], None))
    add(b2, "nonlinear+proposition")
    # disconnected existential atom from the SCC (becomes a nullary helper relation)
    for pos in ("first", "last"):
        def b3(P, s, pos=pos):
            P.rel("r" + s, [("x", "number")], is_output=True)
            r = "r" + s
            P.rules.append(Rule([Atom(r, [X])], [Atom("a", [X])], None))
            body = [Atom(r, [X]), Atom("e", [X, Y]), Atom(r, [Anon()])] if pos == "last" else [Atom(r, [Anon()]), Atom(r, [X]), Atom("e", [X, Y])]
            P.rules.append(Rule([Atom(r, [Y])], body, None))
        add(b3, "disconnected-existential-" + pos)
    def b4(P, s):
        P.rel("r" + s, [("x", "number")], is_output=True)
        P.rel("t" + s, [("x", "number")], is_output=True)
        r, t = "r" + s, "t" + s
        P.rules.append(Rule([Atom(r, [X])], [Atom("a", [X])], None))
        P.rules.append(Rule([Atom(t, [Y])], [Atom(r, [X]), Atom("e", [X, Y])], None))
        P.rules.append(Rule([Atom(r, [Y])], [Atom(r, [X]), Atom("e", [X, Y]), Atom(t, [Z]), Cmp("<", Num(0), Z)], None))
    add(b4, "disconnected-with-constraint")
    # nullary from a lower stratum, positive and negated
    for neg in (False, True):
        def b5(P, s, neg=neg):
            rels(P, s)
            p, f = "p" + s, "f" + s
            P.rules.append(Rule([Atom(f, [])], [Atom("a", [Num(1)])], None))
            P.rules.append(Rule([Atom(p, [X, Y])], [Atom("e", [X, Y])], None))
            P.rules.append(Rule([Atom(p, [X, Z])], [Atom(p, [X, Y]), Atom("e", [Y, Z]), Neg(Atom(f, [])) if neg else Atom(f, [])], None))
        add(b5, "lower-stratum-proposition" + ("-negated" if neg else ""))
    return _finish(cases)


# ------------------------------------------------------------------ chains of unary strata with several negations

def family_negchain(tier, start=0, n=6):
    """n unary IDB relations R1..Rn, one stratum each unless joined positively: R1 = nodes reachable from a/1 through e/2; Ri (i >= 2)
    reads R(i-1) positively or negated (every sign vector) and optionally one earlier relation Rj, j < i-1 (quick: positively,
    thorough: either sign); guard a(x) for R2, nd(x) (all nodes) otherwise.  Only Rn is an output.  These are the shapes in which
    one relation is needed, with a bound argument, under several differently negated contexts (magic sets: labelling of copies)."""
    cases = []
    cid = start
    extras_signs = (True,) if tier == "quick" else (True, False)

    def options(i):
        out = []
        for bsign in (True, False):
            out.append([(i - 1, bsign)])
            for j in range(1, i - 1):
                for es in extras_signs:
                    out.append([(i - 1, bsign), (j, es)])
        return out

    def rec(i, chosen):
        nonlocal cid
        if i > n:
            P = Program()
            _edb_ae(P)
            names = [None] + ["r%d_%d" % (k, cid) for k in range(1, n + 1)]
            nd = "nd_%d" % cid
            P.rel(nd, [("x", "number")])
            P.rules.append(Rule([Atom(nd, [X])], [Atom("e", [X, Anon()])], None))
            P.rules.append(Rule([Atom(nd, [X])], [Atom("e", [Anon(), X])], None))
            P.rules.append(Rule([Atom(nd, [X])], [Atom("a", [X])], None))
            for k in range(1, n + 1):
                P.rel(names[k], [("x", "number")], is_output=(k == n))
            P.rules.append(Rule([Atom(names[1], [X])], [Atom("a", [X])], None))
            P.rules.append(Rule([Atom(names[1], [Y])], [Atom(names[1], [X]), Atom("e", [X, Y])], None))
            desc = []
            for k in range(2, n + 1):
                body = [Atom("a", [X]) if k == 2 else Atom(nd, [X])]
                for j, sign in chosen[k - 2]:
                    body.append(Atom(names[j], [X]) if sign else Neg(Atom(names[j], [X])))
                P.rules.append(Rule([Atom(names[k], [X])], body, None))
                desc.append("R%d:%s" % (k, ",".join(("+" if sg else "!") + "R%d" % j for j, sg in chosen[k - 2])))
            cases.append(Case(cid, "negchain", P, "negchain " + " ".join(desc)))
            cid += 1
            return
        for o in options(i):
            rec(i + 1, chosen + [o])

    rec(2, [])
    return cases


def dbs_negchain():
    return [{"a": ((0,),), "e": ((0, 1), (1, 2))},
            {"a": ((1,),), "e": ((0, 1), (1, 2), (2, 0))},
            {"a": ((0,), (2,)), "e": ((0, 1),)},
            {"a": ((0,),), "e": ((0, 1), (1, 2), (3, 2))}]


# ------------------------------------------------------------------ inequalities that become index range bounds

def family_ineq(tier, start=0):
    """Two-atom joins whose second atom is constrained by inequalities only: every operator of {<, <=, >, >=, !=} against a variable
    of the first atom or a constant, one-sided and two-sided, the second atom's variable existential (q(x)) or used (p(x,y)).
    These are the bodies that the RAM-level index selection turns into range searches and existence checks."""
    cases = []
    cid = start
    W = Var("w")
    firsts = [[Atom("a", [X])], [Atom("e", [X, Z])]]
    seconds = [Atom("a", [Y]), Atom("e", [Y, Anon()]), Atom("e", [Anon(), Y]), Atom("e", [Y, W]), Atom("e", [X, Y])]
    cons = []
    for op in ("<", "<=", ">", ">=", "!="):
        for t in (X, Num(1)):
            cons.append([Cmp(op, Y, t)])
    for lo in (">", ">="):
        for hi in ("<", "<="):
            for t1 in (Num(0), X):
                for t2 in (Num(2), X):
                    if t1 is X and t2 is X:
                        continue
                    cons.append([Cmp(lo, Y, t1), Cmp(hi, Y, t2)])
    for f in firsts:
        for s2 in seconds:
            for cs in cons:
                for head in ("q", "p"):
                    P = Program()
                    _edb_ae(P)
                    r = "%s_%d" % (head, cid)
                    if head == "q":
                        P.rel(r, [("x", "number")], is_output=True)
                        h = Atom(r, [X])
                    else:
                        P.rel(r, [("x", "number"), ("y", "number")], is_output=True)
                        h = Atom(r, [X, Y])
                    P.rules.append(Rule([h], list(f) + [s2] + list(cs), None))
                    cases.append(Case(cid, "ineq", P, show(P.rules[-1])))
                    cid += 1
    return _finish(cases)
