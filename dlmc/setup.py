"""setup_cmd: build the framework from files on disk only."""
import sys, subprocess, os
from .common import *


def main():
    ensure_dirs()
    vbuild()
    from . import run
    run.ensure_pch()
    vs = os.path.join(VERIF, "vsched", "Makefile")
    if os.path.exists(vs):
        r = subprocess.run(["make", "-C", os.path.dirname(vs), "-j", str(NCPU)], stdout=subprocess.PIPE, stderr=subprocess.STDOUT, text=True)
        if r.returncode != 0:
            print(r.stdout[-3000:])
            return 1
    print("setup ok")
    return 0


if __name__ == "__main__":
    sys.exit(main())
