"""C18: fact input accepts exactly the valid, in-range values — every short string over a numeral alphabet (plus a boundary
list) as the single field of a one-line fact file for every numeric column type, and the same numerals as program
constants; three-valued oracle (must-accept / must-reject / either-but-consistent)."""
import itertools, os, re, shutil
from ..common import *
from ..vals import F32, MINI, MAXI, MAXU

PID = "C18"
ALPHA = ["0", "1", "9", "-", "+", ".", "e", "x", "b", "a", " "]
BOUNDARY = ["2147483647", "2147483648", "-2147483648", "-2147483649", "4294967295", "4294967296", "4294967297", "18446744073709551615",
            "18446744073709551616", "99999999999999999999999", "-1", "-0", "00", "007", "0x10", "0b11", "0x", "0b", "1e38", "1e39", "-1e39", "3.5", "3.", ".5",
            "1e-3", "1E3", "inf", "nan", "1_0", "1,0", "12a", "a12", "1 2", " 12", "12 ", "\t5", "0.1", "16777217", "1.0e+10", "--1", "+-1", "1-"]

PROG = """.decl r(x:%s)
.input r
.output r
"""


def classify(ty, s):
    """returns ('accept', value) | ('reject',) | ('grey',)"""
    if ty == "number":
        if re.fullmatch(r"-?(0|[1-9][0-9]*)", s) and s != "-0":
            v = int(s)
            return ("accept", v) if MINI <= v <= MAXI else ("reject",)
        if re.fullmatch(r"[-+]?[0-9]+", s):
            v = int(s)
            return ("grey", v) if MINI <= v <= MAXI else ("reject",)
    elif ty == "unsigned":
        if re.fullmatch(r"0|[1-9][0-9]*", s):
            v = int(s)
            return ("accept", v) if v <= MAXU else ("reject",)
        if re.fullmatch(r"\+?[0-9]+", s):
            v = int(s)
            return ("grey", v) if v <= MAXU else ("reject",)
        if s.startswith("-"):
            return ("reject",)
    else:
        if re.fullmatch(r"-?(0|[1-9][0-9]*)(\.[0-9]+)?", s):
            f = float(s)
            if abs(f) <= 3.4028234663852886e38 and (f == 0 or abs(f) >= 1.2e-38):
                return ("accept", F32(f))
        if re.fullmatch(r"[-+]?([0-9]+\.?[0-9]*|\.[0-9]+)([eE][-+]?[0-9]+)?", s):
            try:
                f = float(s)
                return ("grey", F32(f))
            except ValueError:
                pass
        if s.lower() in ("inf", "-inf", "nan", "-nan", "+inf", "infinity", "-infinity", "+nan"):
            return ("grey", None)
    # everything else: not a complete literal of the type.  Blank padding and hex/binary prefixes are grey.
    t = s.strip(" \t")
    if t != s and t != "":
        return ("grey", None)
    if re.fullmatch(r"[-+]?0[xXbB][0-9a-fA-F]+", s):
        return ("grey", None)
    # C hexadecimal floating literals (0x1., 0x.8, 0x1p3) are prefix forms as well: grey for float columns
    if ty == "float" and re.fullmatch(r"[-+]?0[xX]([0-9a-fA-F]+\.?[0-9a-fA-F]*|\.[0-9a-fA-F]+)([pP][-+]?[0-9]+)?", s):
        return ("grey", None)
    return ("reject",)


def _run(arg):
    ty, s, wd = arg
    d = os.path.join(wd, "%s_%s" % (ty, stable_hash(s)))
    os.makedirs(os.path.join(d, "out"), exist_ok=True)
    with open(os.path.join(d, "p.dl"), "w") as f:
        f.write(PROG % ty)
    with open(os.path.join(d, "r.facts"), "w", newline="") as f:
        f.write(s + "\n")
    rc, so, se = sh([SOUFFLE, "--no-preprocessor", "-F", d, "-D", os.path.join(d, "out"), os.path.join(d, "p.dl")], timeout=60)
    out = None
    p = os.path.join(d, "out", "r.csv")
    if rc == 0 and os.path.exists(p):
        out = open(p).read()
    shutil.rmtree(d, ignore_errors=True)
    return ty, s, rc, se[-400:], out


def _run_const(arg):
    ty, s, wd = arg
    d = os.path.join(wd, "c_%s_%s" % (ty, stable_hash(s)))
    os.makedirs(os.path.join(d, "out"), exist_ok=True)
    with open(os.path.join(d, "p.dl"), "w") as f:
        f.write(".decl r(x:%s)\nr(%s).\n.output r\n" % (ty, s))
    rc, so, se = sh([SOUFFLE, "--no-preprocessor", "-D", os.path.join(d, "out"), os.path.join(d, "p.dl")], timeout=60)
    out = None
    p = os.path.join(d, "out", "r.csv")
    if rc == 0 and os.path.exists(p):
        out = open(p).read()
    shutil.rmtree(d, ignore_errors=True)
    return ty, s, rc, se[-400:], out


def value_of(ty, text):
    text = text.strip("\n")
    try:
        if ty == "float":
            return F32(float(text))
        return int(text)
    except ValueError:
        return None


def check(tier):
    rep = Report(PID, tier, "exploration")
    wd = fresh_dir(PID)
    n = 2 if tier == "quick" else 4
    strings = []
    for k in range(0, n + 1):
        for t in itertools.product(ALPHA, repeat=k):
            strings.append("".join(t))
    strings += [b for b in BOUNDARY if b not in strings]
    jobs = [(ty, s, wd) for ty in ("number", "unsigned", "float") for s in strings if "\n" not in s]
    counts = {"accept": 0, "reject": 0, "grey": 0}
    outcomes = set()
    for ty, s, rc, se, out in pmap(_run, jobs, chunksize=16):
        rep.add("evaluations")
        cls = classify(ty, s)
        counts[cls[0]] += 1
        outcomes.add((ty, cls[0], rc))
        desc = "%s column, field %r" % (ty, s)
        replay = {"kind": "fact", "type": ty, "field": s, "class": cls[0]}
        if rc is None or rc < 0 or rc not in (0, 1):
            rep.violation("loader crashed or hung (rc=%s) on %s" % (rc, desc), replay)
            continue
        if s == "" :
            continue   # an empty line is an empty file for a one-column relation (no tuple) - not a field
        if cls[0] == "accept":
            if rc != 0:
                rep.violation("valid in-range literal rejected: %s: %s" % (desc, se[-200:]), replay)
            elif value_of(ty, out) != cls[1]:
                rep.violation("silently stored a different value: %s loaded as %r" % (desc, out), replay)
        elif cls[0] == "reject":
            if rc == 0:
                rep.violation("invalid or out-of-range field accepted: %s stored as %r" % (desc, out), replay)
            elif "r.facts" not in se and "r data" not in se:
                rep.violation("error message does not name the file: %s: %s" % (desc, se[-200:]), replay)
        else:
            if rc == 0 and cls[1] is not None and out.strip() != "" and value_of(ty, out) != cls[1]:
                # accepted although grey: the stored value must be the literal's value
                if not (ty == "float" and isinstance(cls[1], F32) and value_of(ty, out) is not None and abs(value_of(ty, out).f - cls[1].f) == 0):
                    rep.violation("grey literal accepted with a different value: %s loaded as %r" % (desc, out), replay)
    # the same range rule for constants in program text
    consts = [b for b in BOUNDARY if re.fullmatch(r"-?[0-9]+(\.[0-9]+)?", b)] + ["0", "1", "10", "4294967295", "4294967296"]
    cj = [(ty, s, wd) for ty in ("number", "unsigned", "float") for s in sorted(set(consts))]
    for ty, s, rc, se, out in pmap(_run_const, cj):
        rep.add("evaluations")
        desc = "constant %s for a %s attribute" % (s, ty)
        replay = {"kind": "const", "type": ty, "field": s}
        if rc is None or rc not in (0, 1):
            rep.violation("compiler crashed (rc=%s) on %s" % (rc, desc), replay)
            continue
        if "." in s and ty != "float":
            continue
        try:
            v = int(s) if "." not in s else None
        except ValueError:
            v = None
        if v is None:
            continue
        lo, hi = (MINI + 1, MAXI) if ty == "number" else (0, MAXU) if ty == "unsigned" else (None, None)
        if lo is None:
            continue
        if s.startswith("-") and ty == "unsigned":
            inrange = False
        else:
            inrange = lo <= v <= hi
        if v == MINI and ty == "number":
            continue   # -2147483648 is the negation of an unrepresentable literal: grey
        if inrange and (rc != 0 or value_of(ty, out) != v):
            rep.violation("in-range %s rejected or altered (rc=%s, stored %r)" % (desc, rc, out), replay)
        if not inrange and rc == 0:
            rep.violation("out-of-range %s accepted and stored as %r" % (desc, out), replay)
    rep.set("distinct_nontrivial", len(strings))
    rep.set("classes", counts)
    rep.set("distinct_outcomes", len(outcomes))
    rep.sample({"strings": strings[100:110], "boundary": BOUNDARY[:8]})
    rep.set("rule", "all strings of length <= %d over %r plus a boundary list, each as the only field of a one-line fact file for number, unsigned "
            "and float columns; must-accept = canonical in-range decimal literal, must-reject = everything that is not a complete literal of the type or "
            "out of range, grey = leading blanks, '+', leading zeros, -0, exponents, hex/binary prefixes, inf/nan (either outcome, value consistent); "
            "plus boundary numerals as program constants" % (n, "".join(ALPHA)))
    shutil.rmtree(wd, ignore_errors=True)
    return rep.finish()


def replay(obj):
    wd = fresh_dir(PID + "-replay")
    if obj["kind"] == "fact":
        ty, s, rc, se, out = _run((obj["type"], obj["field"], wd))
        cls = classify(ty, s)
        bad = (rc not in (0, 1)) or (cls[0] == "accept" and (rc != 0 or value_of(ty, out) != cls[1])) or (cls[0] == "reject" and rc == 0)
        return bad, "rc=%s out=%r stderr=%s" % (rc, out, se[-200:])
    ty, s, rc, se, out = _run_const((obj["type"], obj["field"], wd))
    return rc == 0, "rc=%s out=%r" % (rc, out)
