"""C02: compiled programs (single-file -g and multi-file -G) agree with the reference model (and hence with
the interpreter, which C01 compares with the same model on the same cases)."""
import os
from ..common import *
from .. import gen, diff, families

PID = "C02"


def signed_zero_cases():
    """the recorded finding: a float column holding both 0.0 and -0.0"""
    from ..dl import Program, Rule, Atom, Var, Flt, Num
    from ..gen import Case
    from ..vals import F32
    out = []
    P = Program()
    P.rel("fz_0", [("x", "float")], is_output=True)
    P.rules.append(Rule([Atom("fz_0", [Flt(0.0)])], [], None))
    P.rules.append(Rule([Atom("fz_0", [Flt(-0.0)])], [], None))
    out.append(Case(0, "float-signed-zero", P, "fz(0.0). fz(-0.0).", edb={}))
    P = Program()
    P.rel("fin_1", [("x", "float")], is_input=True)
    P.rel("fz_1", [("x", "float"), ("y", "number")], is_output=True)
    P.rules.append(Rule([Atom("fz_1", [Var("x"), Num(1)])], [Atom("fin_1", [Var("x")])], None))
    out.append(Case(1, "float-signed-zero", P, "fz(x,1) :- fin(x).  with fin = {0.0, -0.0}", edb={"fin_1": ((F32(0.0),), (F32(-0.0),))}))
    return out


def classify(case, db, cfg, rel, why):
    if case.family == "float-signed-zero" and cfg.mode != "interp":
        for e in load_findings(PID):
            if e["id"] == "C02-float-signed-zero":
                return e
    return None


def check(tier):
    rep = Report(PID, tier, "exploration")
    dl = Deadline(600 if tier == "quick" else 3300)
    only = os.environ.get("VERIF_FAMILIES")
    fams = families.compiled_slice(tier)
    if only:
        fams = [f for f in fams if f[0] in only.split(",")]
    single = [diff.Config("compiled-g-j1", "compiled", 1), diff.Config("interp-j1", "interp", 1)]
    multi = [diff.Config("compiled-G-j1", "multi", 1)]
    for name, cases, dbs in fams:
        if dl.expired():
            rep.capped("deadline before family " + name)
            continue
        diff.differential(rep, cases, dbs, single, name, batch_size=100, deadline=dl)
        rep.sample({"family": name, "cases": len(cases), "databases": len(dbs), "modes": "-g, interpreter", "example": cases[len(cases) // 2].desc}, cap=30)
    diff.differential(rep, signed_zero_cases(), None, single + multi, "float-signed-zero", batch_size=1, deadline=dl, classify=classify)
    # multi-file generation is two orders of magnitude more expensive to build (one translation unit per
    # relation and stratum): the first k members (simplest first) of every family
    k = 6 if tier == "quick" else 40
    for name, cases, dbs in fams:
        if dl.expired():
            rep.capped("deadline before multi-file family " + name)
            continue
        sub = cases[:k]
        diff.differential(rep, sub, dbs, multi, name + "-G", batch_size=k, deadline=dl)
        rep.sample({"family": name, "cases": len(sub), "databases": len(dbs), "modes": "-G", "example": sub[-1].desc}, cap=30)
    rep.set("rule", "every member of each family up to its size bound x every database of the family's enumeration, generated C++ "
            "compiled at -O0 against the working tree's headers; multi-file mode on the first k members of each family; non-trivial = "
            "reference model derives at least one tuple on some database")
    rep.assume("reference evaluator dlmc.ref defines the stratified least model")
    rep.assume("generated code is compiled by the check itself with g++ -O0 (not through souffle-compile.py at -O3) in the quick tier")
    return rep.finish()


def replay(obj):
    return diff.replay_dl(obj)
