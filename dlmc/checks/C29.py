"""C29: lock-free union-find — all interleavings (preemption-bounded) of small union/find/sameSet mixes on the
real DisjointSet; step invariant (forest, ranks, monotone connectivity) + linearizability of every answer."""
from ..common import *
from .. import vs

PID = "C29"
BUILD_TARGETS = ()


def nops(d):
    return d.split("}")[-1].count("(")


def check(tier):
    rep = Report(PID, tier, "model_checking")
    dl = Deadline(540 if tier == "quick" else 3000)
    exe = vs.build_harness("c29_unionfind")
    sc = vs.list_scenarios(exe)
    small = [i for i, d in sc if nops(d) <= 3]
    large = [i for i, d in sc if nops(d) > 3]
    exe4 = vs.build_harness("c29_unionfind4")
    sc4 = vs.list_scenarios(exe4)
    based4 = [i for i, d in sc4 if d.startswith("base{")]
    if tier == "quick":
        vs.explore_all(rep, "c29_unionfind4", based4, bound=3, budget_per_scenario=30, deadline=dl)
        vs.explore_all(rep, "c29_unionfind", small, bound=3, budget_per_scenario=30, deadline=dl)
    else:
        vs.explore_all(rep, "c29_unionfind4", based4, bound=5, budget_per_scenario=60, deadline=dl)
        vs.explore_all(rep, "c29_unionfind", small, bound=5, budget_per_scenario=60, deadline=dl)
        vs.explore_all(rep, "c29_unionfind", large, bound=3, budget_per_scenario=60, deadline=dl)
        vs.explore_all(rep, "c29_unionfind4", [i for i, d in sc4 if nops(d) <= 3 and not d.startswith("base{")], bound=3, budget_per_scenario=60, deadline=dl)
    rep.set("rule", "scenario = 2 threads x <=2 operations or 3 threads x 1 operation over {union(a,b), find(a), sameSet(a,b)} on 3 nodes "
            "(thorough: also 4 nodes) with at least one/two unions, from fresh nodes and from 2-6 pre-built forests (4 nodes: 2 threads x 1 operation); "
            "every scenario is first explored without a preemption bound under sleep-set partial-order reduction (all interleavings, every reachable "
            "state), the ones that do not complete within the budget with at most `bound` preemptions; executed on the real DisjointSet; the "
            "forest/rank/monotone-connectivity invariant is evaluated after every step, every answer is checked against snapshots taken at call and return")
    rep.assume("sequentially consistent executions")
    return rep.finish()


def replay(obj):
    return vs.replay_vs(obj)
