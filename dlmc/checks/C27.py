"""C27: Brie tries under concurrent insertion — every schedule (preemption-bounded) of small concurrent insert
histories on the real Trie<1..4> against a set model (iteration, membership, prefix ranges, size, partition)."""
from ..common import *
from .. import vs

PID = "C27"
BUILD_TARGETS = ()


def check(tier):
    rep = Report(PID, tier, "model_checking")
    dl = Deadline(420 if tier == "quick" else 3300)
    if tier == "quick":
        vs.run_plan(rep, "c27_brie", [("2x1", 2, 30, 1), ("3x1", 1, 20, 1), ("2x2", 1, 20, 10)], dl)
        vs.run_plan(rep, "c27_brie1", [("2x1", 2, 30, 1)], dl)
    else:
        vs.run_plan(rep, "c27_brie", [("2x1", 3, 120, 1), ("3x1", 2, 60, 1), ("2x2", 2, 30, 1)], dl)
        vs.run_plan(rep, "c27_brie1", [("2x1", 3, 60, 1), ("3x1", 2, 60, 1), ("2x2", 2, 30, 1)], dl)
        vs.run_plan(rep, "c27_brie3", [("2x1", 2, 60, 1), ("3x1", 1, 60, 1)], dl)
        vs.run_plan(rep, "c27_brie4", [("2x1", 2, 60, 1)], dl)
    rep.set("rule", "scenario = base trie (empty / one / three tuples) x concurrent insert lists over a sparse key alphabet "
            "{0,1,63,64,65536,2^31-1} (leaf cell, neighbouring cell, new inner level, raiseLevel, first-leaf pointer all collide) with "
            "per-thread op contexts; every schedule with at most `bound` preemptions at atomic/volatile/conflicting accesses runs on the real trie")
    rep.assume("sequentially consistent executions; compare_exchange_weak never fails spuriously (x86-64)")
    return rep.finish()


def replay(obj):
    return vs.replay_vs(obj)
