"""C13: static checks reject exactly the ill-formed programs — every well-formed program of the quick slice must be accepted
(exit 0) and every single injection of a stratification / groundedness / type defect must be rejected with an Error
diagnostic, exit status 1 and without evaluating anything."""
import os, shutil
from ..common import *
from .. import families, gen4, run
from ..dl import print_program

PID = "C13"
_WD = None


def _accept(arg):
    i, text = arg
    d = os.path.join(_WD, "acc%d" % i)
    os.makedirs(os.path.join(d, "out"), exist_ok=True)
    os.makedirs(os.path.join(d, "facts"), exist_ok=True)
    for f in ("a", "e", "n", "w", "t3", "gu", "gf"):
        open(os.path.join(d, "facts", f + ".facts"), "w").close()
    p = os.path.join(d, "p.dl")
    with open(p, "w") as f:
        f.write(text)
    rc, so, se = sh([SOUFFLE, "--no-preprocessor", "-F", os.path.join(d, "facts"), "-D", os.path.join(d, "out"), p], timeout=300)
    shutil.rmtree(d, ignore_errors=True)
    return i, rc, se[-600:]


def _reject(arg):
    i, text = arg
    d = os.path.join(_WD, "rej%d" % i)
    os.makedirs(os.path.join(d, "out"), exist_ok=True)
    os.makedirs(os.path.join(d, "facts"), exist_ok=True)
    # facts that WOULD produce output if anything were evaluated
    with open(os.path.join(d, "facts", "a.facts"), "w") as f:
        f.write("0\n1\n")
    with open(os.path.join(d, "facts", "e.facts"), "w") as f:
        f.write("0\t1\n1\t0\n")
    p = os.path.join(d, "p.dl")
    with open(p, "w") as f:
        f.write(text)
    rc, so, se = sh([SOUFFLE, "--no-preprocessor", "-F", os.path.join(d, "facts"), "-D", os.path.join(d, "out"), p], timeout=120)
    created = sorted(os.listdir(os.path.join(d, "out")))
    shutil.rmtree(d, ignore_errors=True)
    return i, rc, se[-800:], created


def _reject_many(args):
    return [_reject(a) for a in args]


def check(tier):
    global _WD
    rep = Report(PID, tier, "exploration")
    _WD = fresh_dir(PID)
    fams = families.c01_slice("quick") if tier != "quick" else families.compiled_slice("quick")
    # (1) acceptance of well-formed programs: in batches (a rejected batch is bisected)
    allcases = []
    for name, cases, dbs in fams:
        allcases += [(name, c) for c in cases]
    texts = []
    groups = []
    for name, cases, dbs in fams:
        for ch in chunks(cases, 100):
            texts.append(print_program(run.merge_programs([c.prog for c in ch])))
            groups.append((name, ch))
    dl = Deadline(420 if tier == "quick" else 3000)
    nacc = 0
    for i, rc, se in pmap_unordered(_accept, list(enumerate(texts))):
        nacc += 1
        if dl.elapsed() > 0.4 * dl.limit:
            rep.capped("deadline: %d of %d batches of well-formed programs were run" % (nacc, len(texts)))
            break
        rep.add("evaluations", len(groups[i][1]))
        if rc != 0:
            # bisect to single programs
            name, ch = groups[i]
            singles = [print_program(c.prog) for c in ch]
            for j, rc2, se2 in pmap(_accept, list(enumerate(singles))):
                if rc2 != 0:
                    rep.violation("well-formed program rejected or failed (rc=%s): %s: %s" % (rc2, ch[j].desc, se2[-300:]),
                                  {"kind": "accept", "program": singles[j], "stderr": se2})
    rep.add("well_formed_programs", len(allcases))
    # (2) rejection of every injected defect
    core = []
    for name, cases, dbs in fams:
        if name.startswith("core"):
            core += cases
    if tier == "quick":
        # quick: every rule of core1, every 6th rule of core2xy (the thorough tier injects into all of them)
        c1 = [c for n, cs, _ in fams if n == "core1" for c in cs]
        c2 = [c for n, cs, _ in fams if n != "core1" and n.startswith("core") for c in cs]
        core = c1 + c2[::6]
    inj = []
    for c in core:
        for cls, desc, prog in gen4.inject_defects(c):
            inj.append((cls, desc + " in: " + c.desc, print_program(prog)))
    classes = {}
    done = 0
    results = (r for group in pmap_unordered(_reject_many, list(chunks([(i, t[2]) for i, t in enumerate(inj)], 48))) for r in group)
    for k, (i, rc, se, created) in enumerate(results):
        done += 1
        if dl.expired():
            rep.capped("deadline: %d of %d injected defects were run (simplest rules first)" % (done, len(inj)))
            break
        cls, desc, text = inj[i]
        rep.add("evaluations")
        classes[cls] = classes.get(cls, 0) + 1
        rp = {"kind": "reject", "class": cls, "program": text}
        if rc is None or (isinstance(rc, int) and rc < 0) or rc not in (0, 1):
            rep.violation("compiler crashed or hung (rc=%s) on %s" % (rc, desc), rp)
        elif rc == 0:
            rep.violation("ill-formed program accepted (%s): %s" % (cls, desc), rp)
        elif "Error" not in se:
            rep.violation("rejected without an Error diagnostic (%s): %s: %s" % (cls, desc, se[-200:]), rp)
        elif created:
            rep.violation("output files %s were written although the program was rejected (%s): %s" % (created, cls, desc), rp)
    rep.set("injected_defects_by_class", classes)
    rep.set("distinct_nontrivial", len(inj))
    rep.sample({"injected": inj[len(inj) // 2][1], "class": inj[len(inj) // 2][0], "program": inj[len(inj) // 2][2][-300:]})
    rep.set("rule", "well-formed side: every program of the slice (batched, rejected batches bisected) must exit 0; ill-formed side: every single "
            "injection site of {unbound head/negation/constraint/functor variable, symbol constant or record where a number is required, self "
            "negation, self aggregation, negation cycle through a second relation} into every core rule must give exit 1, an Error diagnostic "
            "and no output file")
    shutil.rmtree(_WD, ignore_errors=True)
    return rep.finish()


def replay(obj):
    global _WD
    _WD = fresh_dir(PID + "-replay")
    if obj["kind"] == "accept":
        i, rc, se = _accept((0, obj["program"]))
        return rc != 0, "rc=%s %s" % (rc, se[-300:])
    i, rc, se, created = _reject((0, obj["program"]))
    return not (rc == 1 and "Error" in se and not created), "rc=%s created=%s %s" % (rc, created, se[-300:])
