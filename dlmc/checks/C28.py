"""C28: equivalence-relation storage is the closure of inserted pairs — (a) explicit-state search over ALL histories of
insert / insertAll / extendAndInsert / query batteries on the real EquivalenceRelation (queries are operations because
they rebuild the partition cache), (b) concurrent insertions under vsched followed by the full query battery."""
from ..common import *
from .. import vs

PID = "C28"
BUILD_TARGETS = ()


def check(tier):
    rep = Report(PID, tier, "model_checking")
    dl = Deadline(420 if tier == "quick" else 3300)
    if tier == "quick":
        vs.run_seq(rep, "seq_eqrel", [(0, 3, 0), (1, 4, 0)])
        vs.run_plan(rep, "c28_eqrel_conc", [("2x1", 2, 30, 1), ("3x1", 1, 20, 2), ("2x2", 1, 20, 15)], dl)
    else:
        vs.run_seq(rep, "seq_eqrel", [(0, 4, 0), (1, 6, 3000000)])
        vs.run_plan(rep, "c28_eqrel_conc", [("2x1", 3, 120, 1), ("3x1", 2, 60, 1), ("2x2", 2, 30, 1)], dl)
    rep.set("rule", "sequential: breadth-first search over histories of {insert(a,b) over elements {1,2,3,2^31-1,-2^31}, insertAll(O_k), "
            "extendAndInsert(O_k) for 4 fixed relations O_k, query battery}; state = union-find forest + dense numbering + cache + stale flag; oracle "
            "in every state: size = sum of squared class sizes, full / per-element / per-pair iteration and partition(n) list exactly the closure once, "
            "contains for every pair; concurrent: 2-3 threads inserting pairs from 3 base relations, every schedule up to the preemption bound")
    rep.assume("sequentially consistent executions for the concurrent part; extendAndInsert's contract is the one documented at its definition")
    return rep.finish()


def replay(obj):
    return vs.replay_any(obj)
