"""C23: a size limit truncates recursion soundly — recursive programs x every limit value x databases; the output must be
a subset of the unlimited (reference) result, equal to it when that is smaller than the limit, else hold >= limit tuples."""
from ..common import *
from .. import diff, gen, gen4

PID = "C23"


def oracle(case, db, rel, got, exp):
    k = case.tags[1]
    if not got <= exp:
        return "output holds tuples outside the unlimited result: %s" % sorted(got - exp)[:3]
    if len(exp) < k and got != exp:
        return "unlimited result (%d tuples) is below the limit %d but the output differs (%d tuples)" % (len(exp), k, len(got))
    if len(exp) >= k and len(got) < k:
        return "limit %d, unlimited result has %d tuples, output only %d" % (k, len(exp), len(got))
    return None


def check(tier):
    rep = Report(PID, tier, "exploration")
    dl = Deadline(420 if tier == "quick" else 3000)
    dbs = gen.dbs_core_quick() if tier == "quick" else gen.dbs_core_thorough()
    big = {"a": tuple((i,) for i in range(0, 6)), "e": tuple((i, (i + 1) % 6) for i in range(6)) + ((0, 3), (2, 5))}
    dbs = dbs + [big]
    cases = gen4.family_limit(tier, maxk=12 if tier == "quick" else 40)
    cfgs = [diff.Config("interp-j1", "interp", 1), diff.Config("interp-j4", "interp", 4)]
    if tier != "quick":
        cfgs.append(diff.Config("compiled-g-j1", "compiled", 1))
    diff.differential(rep, cases, dbs, cfgs, "limit", batch_size=60, deadline=dl, oracle=oracle)
    rep.sample({"family": "limit", "cases": len(cases), "example": cases[7].desc, "databases": len(dbs)})
    rep.set("rule", "6 recursive shapes x every limit value 1..12 (thorough 1..40) x with/without a downstream reader x all databases; oracle: "
            "F subset of U, |U| < k => F = U, otherwise |F| >= k, where U is the reference result without the limit")
    return rep.finish()


def replay(obj):
    def judge(rel, got, exp, o):
        k = o["tags"][1]
        g, e = set(got), set(exp)
        return (not g <= e) or len(g) != len(got) or (len(e) < k and g != e) or (len(e) >= k and len(g) < k)
    return diff.replay_dl(obj, judge=judge)
