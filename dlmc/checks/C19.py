"""C19: provenance is faithful — with -t explain the outputs equal the reference model, and for EVERY output tuple the JSON
proof tree is checked by an independent proof checker (rule instance consistent, positive atoms proven by subtrees ending in
facts, negated atoms absent from the model, constraints true); every absent tuple of the universe reports 'Tuple not found'."""
import json, os, re, shutil, itertools
from ..common import *
from .. import families, gen, gen2, ref, run
from ..dl import *
from ..vals import compare, Undefined

PID = "C19"
_CTX = {}


def parse_tuple(text):
    m = re.fullmatch(r"\s*(!?)([A-Za-z_][A-Za-z_0-9.]*)\((.*)\)\s*", text)
    if not m:
        return None
    args = [a.strip() for a in m.group(3).split(",")] if m.group(3).strip() != "" else []
    try:
        vals = tuple(int(a) for a in args)
    except ValueError:
        return None
    return m.group(1) == "!", m.group(2), vals


def check_node(prog, model, node, depth=0):
    """returns None if the proof (sub)tree is valid, else a message"""
    if depth > 60:
        return "proof tree too deep"
    if "axiom" in node:
        pt = parse_tuple(node["axiom"])
        if pt is None:
            return "unreadable axiom %r" % node["axiom"]
        neg, rel, vals = pt
        if neg:
            return "negated axiom %r in the position of a positive atom" % node["axiom"]
        if rel not in prog.rels:
            return "axiom over unknown relation %r" % rel
        if vals not in model[rel]:
            return "axiom %s is not in the model" % node["axiom"]
        r = prog.rels[rel]
        if not r.is_input and not any(ru.__class__ is Rule and not ru.body and any(h.rel == rel for h in ru.heads) for ru in prog.rules):
            return "leaf %s is neither an input fact nor a program fact" % node["axiom"]
        return None
    pt = parse_tuple(node.get("premises", ""))
    if pt is None:
        return "unreadable premises %r" % node.get("premises")
    _, rel, vals = pt
    if rel not in prog.rels or vals not in model[rel]:
        return "proved tuple %s is not in the model" % node.get("premises")
    m = re.fullmatch(r"\(R(\d+)\)", node.get("rule-number", ""))
    if not m:
        return "no rule number at %s" % node.get("premises")
    rules = [ru for ru in prog.rules if ru.__class__ is Rule and any(h.rel == rel for h in ru.heads)]
    k = int(m.group(1))
    if k < 1 or k > len(rules):
        return "rule number R%d out of range for %s" % (k, rel)
    rule = rules[k - 1]
    head = [h for h in rule.heads if h.rel == rel][0]
    # souffle removes syntactically duplicated body literals before evaluation: the proof is over the de-duplicated body
    body = []
    for l in rule.body:
        if l not in body:
            body.append(l)
    pos = [l for l in body if l.__class__ is Atom]
    negs = [l for l in body if l.__class__ is Neg]
    cons = [l for l in body if l.__class__ is Cmp]
    ch = node.get("children", [])
    if len(ch) != len(pos) + len(negs) + len(cons):
        return "rule R%d of %s has %d body literals but the proof node has %d children" % (k, rel, len(pos) + len(negs) + len(cons), len(ch))
    env = {}
    for a, v in zip(head.args, vals):
        if ref.is_pattern(a):
            env = ref.unify(a, v, env)
            if env is None:
                return "head of R%d does not match %s" % (k, node["premises"])
    for atom, c in zip(pos, ch[:len(pos)]):
        txt = c.get("premises", c.get("axiom", ""))
        ct = parse_tuple(txt)
        if ct is None or ct[0] or ct[1] != atom.rel:
            return "child %r does not instantiate body atom %s" % (txt, show(atom))
        for a, v in zip(atom.args, ct[2]):
            if ref.is_pattern(a):
                env = ref.unify(a, v, env)
                if env is None:
                    return "child %r is inconsistent with the substitution of rule R%d at %s" % (txt, k, node["premises"])
        msg = check_node(prog, model, c, depth + 1)
        if msg:
            return msg
    try:
        for a, v in zip(head.args, vals):
            if not ref.is_pattern(a):
                if list(ref.evs(a, env, model)) != [v]:
                    return "head expression %s does not evaluate to %s" % (show(a), v)
        for atom, c in zip(pos, ch[:len(pos)]):
            ct = parse_tuple(c.get("premises", c.get("axiom", "")))
            for a, v in zip(atom.args, ct[2]):
                if not ref.is_pattern(a) and list(ref.evs(a, env, model)) != [v]:
                    return "body expression %s does not evaluate to %s" % (show(a), v)
        for ng, c in zip(negs, ch[len(pos):len(pos) + len(negs)]):
            if "axiom" not in c:
                return "negated atom proven by a subtree"
            argsets = [None if a.__class__ is Anon else list(ref.evs(a, env, model)) for a in ng.atom.args]
            if any(all(s is None or t[i] in s for i, s in enumerate(argsets)) for t in model[ng.atom.rel]):
                return "negated atom %s holds in the model under the proof's substitution (%s)" % (show(ng), c["axiom"])
        for cn, c in zip(cons, ch[len(pos) + len(negs):]):
            ok = False
            for x in ref.evs(cn.lhs, env, model):
                for y in ref.evs(cn.rhs, env, model):
                    if compare(cn.op, x, y):
                        ok = True
            if not ok:
                return "constraint %s is false under the proof's substitution (%s)" % (show(cn), c.get("axiom"))
    except (ref.Ungrounded, Undefined) as e:
        return "proof leaves a variable of rule R%d unbound (%s)" % (k, e)
    return None


def connected(case):
    """every positive body atom of every rule is linked to the head (directly or through other atoms) by shared variables:
    otherwise the AST transformers move it into an internal +disconnected relation that shows up in the explanation"""
    for ru in case.prog.rules:
        if ru.__class__ is not Rule or not ru.body:
            continue
        hv = set()
        for h in ru.heads:
            hv.update(vars_of(h))
        atoms = [l for l in ru.body if l.__class__ is Atom]
        reach = set(hv)
        pending = list(atoms)
        progress = True
        while pending and progress:
            progress = False
            for a in list(pending):
                av = set(vars_of(a))
                if av & reach:
                    reach |= av
                    pending.remove(a)
                    progress = True
        if pending:
            return False
    return True


def _job(arg):
    bi, di = arg
    batch = _CTX["batches"][bi]
    db = _CTX["dbs"][di]
    wd = _CTX["wd"]
    res = {"evals": 0, "proofs": 0, "absent": 0, "viol": []}
    out_dir = os.path.join(wd, "o_%d_%d" % (bi, di))
    os.makedirs(out_dir, exist_ok=True)
    models = {}
    queries = ["format json", "setdepth 40"]
    order = []
    dom = sorted({v for ts in db.values() for t in ts for v in t} | {0, 1})
    for c in batch:
        try:
            model = ref.evaluate(c.prog, db)
        except Undefined:
            continue
        models[c.cid] = model
        for rel in c.outputs():
            for t in sorted(model[rel]):
                queries.append("explain %s(%s)" % (rel, ", ".join(str(v) for v in t)))
                order.append((c, rel, t, True))
            ar = len(c.prog.rels[rel].attrs)
            for t in itertools.product(dom, repeat=ar):
                if t not in model[rel]:
                    queries.append("explain %s(%s)" % (rel, ", ".join(str(v) for v in t)))
                    order.append((c, rel, t, False))
    queries.append("exit")
    mode = _CTX["mode"]
    cmd = [SOUFFLE, "--no-preprocessor", "-w", "-t", "explain", "-F", os.path.join(wd, "db%d" % di), "-D", out_dir, os.path.join(wd, "b%d.dl" % bi)]
    rc, so, se = sh(cmd, timeout=900, stdin=("\n".join(queries) + "\n").encode())
    if rc != 0:
        res["viol"].append((batch[0].cid, "souffle -t explain failed rc=%s: %s" % (rc, se[-300:]), db, None))
        shutil.rmtree(out_dir, ignore_errors=True)
        return res
    # outputs unchanged by provenance
    for c in batch:
        if c.cid not in models:
            continue
        res["evals"] += 1
        for rel in c.outputs():
            try:
                got, dups = run.read_relation(os.path.join(out_dir, rel + ".csv"), c.prog.rels[rel], c.prog.typeinfo)
            except Exception as e:
                res["viol"].append((c.cid, "unreadable output with provenance: %s" % e, db, None))
                continue
            if got != models[c.cid][rel] or dups:
                res["viol"].append((c.cid, "output relation %s with provenance enabled differs from the reference model" % rel, db, None))
    # split the answers: one JSON object per query, each starting with '{ "proof":'
    chunks_ = [x for x in re.split(r'(?m)^(?=\{ "proof":)', so) if x.strip().startswith('{ "proof":')]
    if len(chunks_) != len(order):
        res["viol"].append((batch[0].cid, "asked %d explanations, got %d answers" % (len(order), len(chunks_)), db, None))
        shutil.rmtree(out_dir, ignore_errors=True)
        return res
    for (c, rel, t, present), txt in zip(order, chunks_):
        try:
            end = txt.rindex("}")
            obj = json.loads(txt[:end + 1])
        except Exception as e:
            res["viol"].append((c.cid, "explain %s%s: answer is not JSON (%s)" % (rel, t, e), db, "explain %s%s" % (rel, t)))
            continue
        proof = obj.get("proof", {})
        if not present:
            res["absent"] += 1
            if proof.get("axiom") != "Tuple not found":
                res["viol"].append((c.cid, "explain of the absent tuple %s%s does not report 'Tuple not found': %s" % (rel, t, json.dumps(proof)[:200]), db, "explain %s%s" % (rel, t)))
            continue
        res["proofs"] += 1
        if parse_tuple(proof.get("premises", proof.get("axiom", ""))) != (False, rel, t):
            msg = "explanation is for %r" % proof.get("premises", proof.get("axiom"))
        else:
            msg = check_node(c.prog, models[c.cid], proof)
        if msg:
            res["viol"].append((c.cid, "explain %s%s: %s" % (rel, t, msg), db, "explain %s(%s)" % (rel, ", ".join(str(v) for v in t))))
    shutil.rmtree(out_dir, ignore_errors=True)
    return res


def check(tier):
    global _CTX
    from ..dl import print_program
    from ..diff import edb_text
    rep = Report(PID, tier, "exploration")
    dl = Deadline(480 if tier == "quick" else 3300)
    wd = fresh_dir(PID)
    core2 = families.core_cases(2, terms=("x", "y"), consts=(), cmp_ops=("<",))
    if tier == "quick":
        # every third rule, and every rule with a negation (its proof must pick a witness that makes the negated atom false)
        from ..dl import Neg as _Neg
        keep = {id(c) for c in core2[::3]}
        core2 = [c for c in core2 if id(c) in keep or any(l.__class__ is _Neg for l in c.prog.rules[-1].body)]
    core = families.core_cases(1) + core2
    core = [c for c in core if connected(c)]
    cases = core + gen2.family_mutrec("quick") + gen2.family_multirec("quick")
    # cids must be unique
    by = {}
    fams = [("core", core), ("mutrec", gen2.family_mutrec("quick")), ("multirec", gen2.family_multirec("quick"))]
    dbs = gen.dbs_core_quick()[-6:] if tier == "quick" else gen.dbs_core_quick()
    # several candidate witnesses per head tuple, the first one in index order failing a negated / compared literal
    dbs = list(dbs) + [{"a": ((1,),), "e": ((0, 1), (0, 2), (2, 1), (2, 2))}, {"a": ((0,), (1,)), "e": ((0, 0), (0, 1), (0, 2), (1, 1), (1, 2))}]
    for di, db in enumerate(dbs):
        for n in ("a", "e"):
            run.write_facts(os.path.join(wd, "db%d" % di), n, db.get(n, ()))
    nb = 0
    batches = []
    for name, cs in fams:
        for ch in chunks(cs, 40):
            batches.append(ch)
    for bi, ch in enumerate(batches):
        with open(os.path.join(wd, "b%d.dl" % bi), "w") as f:
            f.write(print_program(run.merge_programs([c.prog for c in ch])))
    _CTX = {"batches": batches, "dbs": dbs, "wd": wd, "mode": "interp"}
    jobs = [(bi, di) for bi in range(len(batches)) for di in range(len(dbs))]
    nv = 0
    for res in pmap_unordered(_job, jobs):
        rep.add("evaluations", res["evals"])
        rep.add("proof_trees_checked", res["proofs"])
        rep.add("absent_tuples_checked", res["absent"])
        for cid, msg, db, query in res["viol"]:
            nv += 1
            if nv > 20:
                continue
            c = [x for b in batches for x in b if x.cid == cid and msg][0]
            rep.violation("%s: %s" % (c.desc, msg), {"kind": "explain", "program": print_program(c.prog), "facts": edb_text(db), "query": query, "why": msg})
        if dl.expired():
            rep.capped("deadline")
            break
    rep.set("distinct_nontrivial", rep.cov.get("proof_trees_checked", 0))
    rep.sample({"families": [(n, len(c)) for n, c in fams], "databases": len(dbs)})
    rep.set("rule", "every program of core1, core2xy, mutrec, multirec x databases; `-t explain` with `format json`: one `explain` per tuple of every "
            "output relation and per absent tuple of the universe over the active domain; every proof node is checked against the AST rule it "
            "cites (children = positive atoms, then negations, then constraints) and against the reference model")
    rep.assume("interpreter only in this tier; rule numbering R<k> = k-th rule of the relation in source order")
    shutil.rmtree(wd, ignore_errors=True)
    return rep.finish()


def replay(obj):
    wd = fresh_dir(PID + "-replay")
    with open(os.path.join(wd, "p.dl"), "w") as f:
        f.write(obj["program"])
    os.makedirs(os.path.join(wd, "f"), exist_ok=True)
    for r, lines in obj.get("facts", {}).items():
        with open(os.path.join(wd, "f", r + ".facts"), "w") as f:
            f.write("".join(l + "\n" for l in lines))
    q = "format json\nsetdepth 40\n%s\nexit\n" % (obj.get("query") or "")
    rc, so, se = sh([SOUFFLE, "--no-preprocessor", "-w", "-t", "explain", "-F", os.path.join(wd, "f"), "-D", wd, os.path.join(wd, "p.dl")], timeout=300, stdin=q.encode())
    return True, "rc=%s answer=%s (re-check with the proof checker: %s)" % (rc, so[:600], obj.get("why"))
