"""C22: auto-increment values are unique within a run — programs deriving tuples with autoinc() in parallelisable rules x
thread counts 1..16 (interpreter) / 1,4 (compiled) on databases large enough to split the parallel loops: all counter
values pairwise distinct, and the relation without the counter column equals the reference model (one tuple per derivation)."""
from ..common import *
from .. import diff, gen4
from .C03 import big_dbs

PID = "C22"


def oracle(case, db, rel, got, exp):
    ncount = case.tags[1]
    width = len(next(iter(got))) if got else 0
    counters = []
    proj = set()
    for t in got:
        counters += list(t[width - ncount:])
        proj.add(t[:width - ncount] + (0,) * ncount)
    if case.tags[2] == "expr":
        # counter * 2: still pairwise distinct
        pass
    if len(set(counters)) != len(counters):
        dup = sorted(c for c in set(counters) if counters.count(c) > 1)[:3]
        return "auto-increment value(s) %s handed out more than once" % dup
    if proj != exp:
        return "tuples without the counter column differ from the reference model"
    # one tuple per derivation (= satisfying assignment of the rule body), each with its own counter value
    from .. import ref as _ref
    full = {n: set(db.get(n, ())) for n in case.ref_prog.rels}
    nder = sum(len(_ref.derive(r, full)) for r in case.ref_prog.rules)
    if len(got) != nder:
        return "%d tuples for %d derivations" % (len(got), nder)
    return None


def check(tier):
    rep = Report(PID, tier, "exploration")
    dl = Deadline(420 if tier == "quick" else 3000)
    cases = gen4.family_autoinc(tier)
    dbs = big_dbs() + [{"a": ((0,), (1,)), "e": ((0, 1), (1, 0))}, {"a": (), "e": ()}]
    icfg = [diff.Config("interp-j%d" % j, "interp", j) for j in range(1, 17)]
    ccfg = [diff.Config("compiled-j%d" % j, "compiled", j) for j in ((1, 4) if tier == "quick" else (1, 2, 4, 8, 16))]
    reps = 1 if tier == "quick" else 5
    for k in range(reps):
        diff.differential(rep, cases, dbs, icfg + ccfg, "autoinc-%d" % k, batch_size=10, deadline=dl, oracle=oracle, timeout=300)
    rep.sample({"family": "autoinc", "cases": [c.desc for c in cases][:4], "thread_counts": "1..16"})
    rep.set("rule", "7 rule shapes with autoinc() (unary/binary/join/two rules/filter/inside an expression/two counters in one head) x 5 databases "
            "(up to 120 tuples) x thread counts; oracle: all counter values of a run pairwise distinct, projection = reference model, one tuple per derivation")
    rep.assume("interleavings inside one thread count are whatever the OS produces (repeated 5x in the thorough tier); the atomicity of the counter "
               "itself is a single fetch_add and is not separately model checked")
    # schedule dimension: generated code under the vsched scheduler with the OpenMP shim (all chunk assignments and access
    # interleavings up to the preemption bound on small driver programs)
    from .. import gomp_cases
    gomp_cases.run_gomp(rep, tier, Deadline(300 if tier == "quick" else 1500), "C22")
    return rep.finish()


def replay(obj):
    if obj.get("kind") == "vsched":
        from .. import vs
        import os
        exe = os.path.join(VBUILD, "gomp", obj["extra"]["gomp"], "harness")
        return vs.replay_schedule(exe, obj["scenario"], obj["schedule"], obj["bound"], obj.get("dpoints", 1), obj.get("horizon", 20000), obj.get("conflicts", ()))
    def judge(rel, got, exp, o):
        n = o["tags"][1]
        cs = []
        for l in got:
            cs += l.split("\t")[-n:]
        return len(set(cs)) != len(cs) or len(got) != len(exp)
    return diff.replay_dl(obj, judge=judge)
