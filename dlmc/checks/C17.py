"""C17: writing relations and reading them back reproduces the tuples — attribute types x IO formats x value sets over
per-type boundary / escape alphabets.  A writer program outputs relation w; a reader program inputs w with the matching
options and compares it INSIDE souffle with the original facts (missing / extra / counts), so no text form is trusted."""
import itertools, os, shutil
from ..common import *
from ..dl import esc_sym, fmt_float

PID = "C17"
MAXI, MINI, MAXU = 2147483647, -2147483648, 4294967295

TYPES_DECL = """.type Pr = [a:number, b:symbol]
.type Nn = [p:Pr, n:number]
.type Ad = E {} | U1 {x:number} | B2 {x:number, s:symbol} | Nd {l:Ad, r:Ad}
"""


def sym_values(alphabet, n):
    out = [""]
    for k in range(1, n + 1):
        out += ["".join(t) for t in itertools.product(alphabet, repeat=k)]
    return out


def value_sets(tier):
    n = 2 if tier == "quick" else 3
    return {
        "number": ("x:number", [str(v) for v in (0, 1, -1, 7, MAXI, MINI + 1)] + ["(-2147483647 - 1)"]),
        "unsigned": ("x:unsigned", ["%du" % v for v in (0, 1, 7, 2147483648, MAXU)]),
        "float": ("x:float", ["0.0", "1.5", "(-2.25)", "10000000000.0", "0.00001", "16777216.0", "0.1", "(-0.0)", "340282346638528859811704183484516925440.0", "3.14159274"]),
        "symbol-plain": ("x:symbol", [esc_sym(s) for s in sym_values(["a", "b", " ", "-", "_", "1"], n) if s != ""]),
        "symbol-special": ("x:symbol", [esc_sym(s) for s in sym_values(["a", '"', ",", "[", "]", "\\", " ", "'", "|", ";"], n) if s != ""]),
        "symbol-ws": ("x:symbol", [esc_sym(s) for s in sym_values(["a", "\t", "\n", '"', ","], n) if s != ""]),
        # symbols with embedded line breaks of both kinds (every sequence of up to 4 tokens from a, CRLF, LF, CR)
        "symbol-linebreaks": ("x:symbol", [esc_sym("".join(t)) for k in range(1, 5) for t in itertools.product(["a", "\r\n", "\n", "\r"], repeat=k)]),
        "two-columns-linebreaks": ("x:symbol, y:symbol", ['%s, %s' % (esc_sym(a), esc_sym(b)) for a in ("p\r\nq", "p\nq", "p") for b in ("u\nv", "u\r\nv", "u", "\r\n")]),
        "two-columns": ("x:symbol, y:number", ['%s, %d' % (esc_sym(s), i) for i, s in enumerate(["", "a", "a b", "x,y", 'q"q', "", "[1]"])]),
        "record": ("x:Pr", ['nil', '[0, "a"]', '[-1, "b c"]', '[2147483647, ""]', '[7, "x_y"]']),
        "nested-record": ("x:Nn", ['nil', '[nil, 1]', '[[1, "a"], 2]', '[[-5, "k"], -2147483647]']),
        "adt": ("x:Ad", ['$E()', '$U1(5)', '$U1(-1)', '$B2(1, "s")', '$B2(0, "a b")', '$Nd($E(), $U1(2))', '$Nd($Nd($E(), $E()), $B2(3, "z"))']),
        "mixed": ("a:number, b:unsigned, c:float, d:symbol, e:Pr", ['-1, 4294967295u, 2.5, "sym", [1, "r"]', '0, 0u, 0.0, "", nil']),
    }


FORMATS = {
    # name: (output options, input options, representable(valueset name) )
    "tab": ("", "", lambda t: t not in ("symbol-special", "symbol-ws", "two-columns") or t == "symbol-special"),
    "comma": ('delimiter=","', 'delimiter=","', lambda t: t not in ("symbol-special", "symbol-ws", "two-columns", "record", "nested-record", "adt", "mixed")),
    "pipe": ('delimiter="|"', 'delimiter="|"', lambda t: t not in ("symbol-special", "symbol-ws")),
    "rfc4180": ('rfc4180=true, delimiter=","', 'rfc4180=true, delimiter=","', lambda t: True),
    "headers": ("headers=true", "headers=true", lambda t: t not in ("symbol-ws",)),
    "gzip": ("compress=true", "compress=true", lambda t: t not in ("symbol-ws",)),
    "json-list": ("IO=jsonfile, format=list", "IO=jsonfile, format=list", lambda t: True),
    "json-object": ("IO=jsonfile, format=object", "IO=jsonfile, format=object", lambda t: True),
    "sqlite": ("IO=sqlite", "IO=sqlite", lambda t: True),
}

# values a plain delimited text format cannot represent: the delimiter itself / line breaks (two-columns contains "x,y": fine for tab)
NOT_REPRESENTABLE = {
    ("tab", "symbol-linebreaks"), ("headers", "symbol-linebreaks"), ("gzip", "symbol-linebreaks"), ("pipe", "symbol-linebreaks"), ("comma", "symbol-linebreaks"),
    ("tab", "two-columns-linebreaks"), ("headers", "two-columns-linebreaks"), ("gzip", "two-columns-linebreaks"), ("pipe", "two-columns-linebreaks"),
    ("comma", "two-columns-linebreaks"),
    ("tab", "symbol-ws"), ("headers", "symbol-ws"), ("gzip", "symbol-ws"), ("pipe", "symbol-ws"), ("pipe", "symbol-special"),
    ("comma", "symbol-special"), ("comma", "symbol-ws"), ("comma", "two-columns"),
    # records and ADTs print with ", " between their fields: not representable with ',' as the column delimiter (without RFC 4180 quoting)
    ("comma", "record"), ("comma", "nested-record"), ("comma", "adt"), ("comma", "mixed"),
}


def _one(arg):
    tname, decl, values, fname, wd = arg
    oopt, iopt, _ = FORMATS[fname]
    d = os.path.join(wd, "%s_%s" % (tname, fname))
    shutil.rmtree(d, ignore_errors=True)
    os.makedirs(d)
    path = os.path.join(d, "w.data")
    dbopt = 'dbname="%s"' % path if "sqlite" in oopt else 'filename="%s"' % path
    cols = [c.split(":")[0].strip() for c in decl.split(",")]
    vars_ = ", ".join(cols)
    wprog = TYPES_DECL + ".decl w(%s)\n" % decl + "".join("w(%s).\n" % v for v in values) + ".output w(%s)\n" % ", ".join(x for x in (oopt if "IO=" in oopt else "IO=file" + (", " + oopt if oopt else ""), dbopt) if x)
    rprog = (TYPES_DECL + ".decl orig(%s)\n" % decl + "".join("orig(%s).\n" % v for v in values) + ".decl w(%s)\n" % decl +
             ".input w(%s)\n" % ", ".join(x for x in (iopt if "IO=" in iopt else "IO=file" + (", " + iopt if iopt else ""), dbopt) if x) +
             ".decl missing(%s)\nmissing(%s) :- orig(%s), !w(%s).\n" % (decl, vars_, vars_, vars_) +
             ".decl extra(%s)\nextra(%s) :- w(%s), !orig(%s).\n" % (decl, vars_, vars_, vars_) +
             ".decl stats(m:number, e:number, no:number, nw:number)\n"
             "stats(m, e, no, nw) :- m = count : { missing(%s) }, e = count : { extra(%s) }, no = count : { orig(%s) }, nw = count : { w(%s) }.\n" %
             tuple([", ".join("_" for _ in cols)] * 4) +
             ".output stats\n.output missing\n.output extra\n")
    with open(os.path.join(d, "writer.dl"), "w", encoding="latin-1") as f:
        f.write(wprog)
    with open(os.path.join(d, "reader.dl"), "w", encoding="latin-1") as f:
        f.write(rprog)
    rc1, so1, se1 = sh([SOUFFLE, "--no-preprocessor", "-w", "-D", d, os.path.join(d, "writer.dl")], timeout=120)
    res = {"type": tname, "format": fname, "n": len(values), "writer": wprog, "reader": rprog}
    if rc1 != 0:
        res["error"] = "writer failed rc=%s: %s" % (rc1, se1[-300:])
        shutil.rmtree(d, ignore_errors=True)
        return res
    rc2, so2, se2 = sh([SOUFFLE, "--no-preprocessor", "-w", "-D", d, os.path.join(d, "reader.dl")], timeout=120)
    if rc2 != 0:
        res["error"] = "reader failed rc=%s: %s" % (rc2, se2[-300:])
        shutil.rmtree(d, ignore_errors=True)
        return res
    try:
        st = open(os.path.join(d, "stats.csv")).read().split()
        res["stats"] = [int(x) for x in st]
        res["missing"] = open(os.path.join(d, "missing.csv"), encoding="latin-1").read()[:300]
        res["extra"] = open(os.path.join(d, "extra.csv"), encoding="latin-1").read()[:300]
    except Exception as e:
        res["error"] = "cannot read the reader's result: %s" % e
    shutil.rmtree(d, ignore_errors=True)
    return res


def classify(res):
    t, f = res["type"], res["format"]
    fid = None
    if t in ("float", "mixed") and f in ("json-list", "json-object"):
        fid = "C17-json-float"
    elif t in ("float", "mixed") and f == "sqlite":
        fid = "C17-sqlite-float"
    elif t == "adt" and f in ("json-list", "json-object", "sqlite"):
        fid = "C17-adt-json-sqlite"
    if fid:
        for e in load_findings(PID):
            if e["id"] == fid:
                return e
    return None


def check(tier):
    rep = Report(PID, tier, "exploration")
    wd = fresh_dir(PID)
    vs_ = value_sets(tier)
    jobs = []
    skipped = []
    for tname, (decl, values) in vs_.items():
        for fname in FORMATS:
            if (fname, tname) in NOT_REPRESENTABLE:
                skipped.append("%s/%s" % (fname, tname))
                continue
            jobs.append((tname, decl, values, fname, wd))
    tuples = 0
    for res in pmap(_one, jobs):
        rep.add("evaluations")
        tuples += res["n"]
        desc = "%s values in format %s" % (res["type"], res["format"])
        rp = {"kind": "roundtrip", "type": res["type"], "format": res["format"], "writer": res["writer"], "reader": res["reader"]}
        bad = "error" in res or res["stats"][0] or res["stats"][1] or res["stats"][2] != res["stats"][3]
        if bad:
            kf = classify(res)
            if kf:
                rep.known_finding(kf, desc)
                continue
        if "error" in res:
            rep.violation("%s: %s" % (desc, res["error"]), rp)
            continue
        m, e, no, nw = res["stats"]
        if m or e or no != nw:
            rep.violation("%s: %d of %d tuples lost, %d foreign tuples read back (missing: %r extra: %r)" % (desc, m, no, e, res["missing"][:120], res["extra"][:120]), rp)
    rep.set("tuples_round_tripped", tuples)
    rep.set("distinct_nontrivial", len(jobs))
    rep.set("combinations_outside_what_the_format_can_represent", skipped)
    rep.sample({"types": list(vs_.keys()), "formats": list(FORMATS.keys()), "example_values": vs_["symbol-special"][1][5:12]})
    rep.set("rule", "13 value sets (numeric extremes, floats needing 9 digits, symbols with CRLF / LF / CR line breaks in every order, all strings up to length %d over plain / special / whitespace alphabets, "
            "records incl. nil and nesting, ADTs, mixed) x 9 formats (tab, ',', '|', RFC 4180, headers, gzip, JSON list/object, SQLite) minus the "
            "combinations a plain delimited format cannot represent (delimiter or line break inside a symbol); non-trivial = all" % (2 if tier == "quick" else 3))
    shutil.rmtree(wd, ignore_errors=True)
    return rep.finish()


def replay(obj):
    wd = fresh_dir(PID + "-replay")
    vs_ = None
    d = os.path.join(wd, "r")
    os.makedirs(d)
    w = obj["writer"]
    r = obj["reader"]
    # rewrite the absolute data path
    import re
    old = re.search(r'(?:filename|dbname)="([^"]+)"', w).group(1)
    w = w.replace(old, os.path.join(d, "w.data"))
    r = r.replace(old, os.path.join(d, "w.data"))
    open(os.path.join(d, "writer.dl"), "w", encoding="latin-1").write(w)
    open(os.path.join(d, "reader.dl"), "w", encoding="latin-1").write(r)
    rc1, _, se1 = sh([SOUFFLE, "--no-preprocessor", "-w", "-D", d, os.path.join(d, "writer.dl")], timeout=120)
    rc2, _, se2 = sh([SOUFFLE, "--no-preprocessor", "-w", "-D", d, os.path.join(d, "reader.dl")], timeout=120)
    st = open(os.path.join(d, "stats.csv")).read().split() if rc1 == 0 and rc2 == 0 else None
    bad = st is None or st[0] != "0" or st[1] != "0" or st[2] != st[3]
    return bad, "writer rc=%s reader rc=%s stats(missing, extra, original, read)=%s %s" % (rc1, rc2, st, (se1 + se2)[-200:])
