"""C12: lattice relations hold one least-upper-bound value per key — programs over two finite lattices (5-point sign lattice,
4-point chain; lub/glb are user-defined functors compiled from dlmc/native/functors.cpp) x databases; the final relation must
hold at most one tuple per key and its value must be the least fixpoint computed by an independent evaluator."""
import os, shutil, subprocess
from ..common import *
from .. import gen, ref, run
from ..dl import *
from ..vals import AdtV

PID = "C12"
SIGN = ["Bottom", "Negative", "Positive", "Top", "Zero"]
LVL = ["L0", "L1", "L2", "L3"]


def sign_lub(a, b):
    if a == "Bottom":
        return b
    if b == "Bottom":
        return a
    return a if a == b else "Top"


def lvl_lub(a, b):
    return a if LVL.index(a) >= LVL.index(b) else b


HEADER = """.type Sign = Bottom{} | Negative{} | Positive{} | Top{} | Zero{}
.type Lvl = L0{} | L1{} | L2{} | L3{}
.functor sign_lub(a:Sign, b:Sign):Sign stateful
.functor sign_glb(a:Sign, b:Sign):Sign stateful
.functor lvl_lub(a:Lvl, b:Lvl):Lvl stateful
.functor lvl_glb(a:Lvl, b:Lvl):Lvl stateful
.functor lvl_up(a:Lvl):Lvl stateful
.lattice Sign<> { Bottom -> $Bottom(), Top -> $Top(), Lub -> @sign_lub(_,_), Glb -> @sign_glb(_,_) }
.lattice Lvl<> { Bottom -> $L0(), Top -> $L3(), Lub -> @lvl_lub(_,_), Glb -> @lvl_glb(_,_) }
.decl a(x:number)
.input a
.decl e(x:number, y:number)
.input e
"""

# each program: (name, text, evaluator) ; evaluator(db) -> dict key-tuple -> lattice value (only keys that get a value)
def sgn(n):
    return "Zero" if n == 0 else ("Positive" if n > 0 else "Negative")


def prog_sign_of_successors(db):
    # S(x, sign(y - 1)) for every edge: per key x the join of the signs
    out = {}
    for x, y in db["e"]:
        v = sgn(y - 1)
        out[(x,)] = sign_lub(out[(x,)], v) if (x,) in out else v
    return out


def prog_sign_two_rules(db):
    out = {}
    for x, y in db["e"]:
        for k, v in (((x,), sgn(y)), ((y,), sgn(x - y))):
            out[k] = sign_lub(out[k], v) if k in out else v
    return out


def prog_lvl_reach(db):
    # V(x, L1) for sources; V(y, up(l)) along edges; least fixpoint
    val = {}
    for (x,) in db["a"]:
        val[(x,)] = "L1"
    changed = True
    while changed:
        changed = False
        for x, y in db["e"]:
            if (x,) in val:
                up = LVL[min(3, LVL.index(val[(x,)]) + 1)]
                new = lvl_lub(val[(y,)], up) if (y,) in val else up
                if val.get((y,)) != new:
                    val[(y,)] = new
                    changed = True
    return val


def prog_lvl_copy(db):
    val = {}
    for (x,) in db["a"]:
        val[(x,)] = "L2" if x % 2 == 0 else "L1"      # (x % 2 = 0 is sign independent)
    changed = True
    while changed:
        changed = False
        for x, y in db["e"]:
            if (x,) in val:
                new = lvl_lub(val[(y,)], val[(x,)]) if (y,) in val else val[(x,)]
                if val.get((y,)) != new:
                    val[(y,)] = new
                    changed = True
    return val


def prog_two_keys(db):
    out = {}
    for x, y in db["e"]:
        cm = lambda v: v - 2 * int(v / 2)      # C remainder (truncating division)
        k = (cm(x), cm(y))
        v = sgn(x - y)
        out[k] = sign_lub(out[k], v) if k in out else v
    return out


PROGRAMS = [
    ("sign-of-successors", ".decl S(x:number, s:Sign<>)\n.output S\nS(x, s) :- e(x, y), (y - 1 = 0, s = $Zero() ; y - 1 > 0, s = $Positive() ; y - 1 < 0, s = $Negative()).\n", "S", 1, prog_sign_of_successors),
    ("sign-two-rules", ".decl S(x:number, s:Sign<>)\n.output S\nS(x, s) :- e(x, y), (y = 0, s = $Zero() ; y > 0, s = $Positive() ; y < 0, s = $Negative()).\n"
     "S(y, s) :- e(x, y), (x - y = 0, s = $Zero() ; x - y > 0, s = $Positive() ; x - y < 0, s = $Negative()).\n", "S", 1, prog_sign_two_rules),
    ("level-reach-recursive", ".decl V(x:number, l:Lvl<>)\n.output V\nV(x, $L1()) :- a(x).\nV(y, @lvl_up(l)) :- V(x, l), e(x, y).\n", "V", 1, prog_lvl_reach),
    ("level-copy-recursive", ".decl V(x:number, l:Lvl<>)\n.output V\nV(x, $L2()) :- a(x), x % 2 = 0.\nV(x, $L1()) :- a(x), x % 2 != 0.\nV(y, l) :- V(x, l), e(x, y).\n", "V", 1, prog_lvl_copy),
    ("two-key-columns", ".decl S(p:number, q:number, s:Sign<>)\n.output S\nS(x % 2, y % 2, s) :- e(x, y), (x - y = 0, s = $Zero() ; x - y > 0, s = $Positive() ; x - y < 0, s = $Negative()).\n", "S", 2, prog_two_keys),
]


def build_functors():
    d = os.path.join(VBUILD, "functors")
    os.makedirs(d, exist_ok=True)
    so = os.path.join(d, "libfunctors.so")
    src = os.path.join(VERIF, "dlmc", "native", "functors.cpp")
    with Lock("functors"):
        r = subprocess.run(["g++", "-std=c++17", "-shared", "-fPIC", "-O1", "-I" + os.path.join(REPO, "src", "include"), src, "-o", so],
                           stdout=subprocess.PIPE, stderr=subprocess.STDOUT, text=True)
        if r.returncode != 0:
            raise CheckError("functor library does not build: " + r.stdout[-1500:])
    return d


def _job(arg):
    pi, di, mode, wd, fdir = arg
    name, text, rel, nkeys, evalf = PROGRAMS[pi]
    db = DBS[di]
    d = os.path.join(wd, "p%d_d%d_%s" % (pi, di, mode))
    os.makedirs(os.path.join(d, "f"), exist_ok=True)
    os.makedirs(os.path.join(d, "o"), exist_ok=True)
    run.write_facts(os.path.join(d, "f"), "a", db["a"])
    run.write_facts(os.path.join(d, "f"), "e", db["e"])
    with open(os.path.join(d, "p.dl"), "w") as f:
        f.write(HEADER + text)
    env = dict(os.environ)
    env["LD_LIBRARY_PATH"] = fdir + ":" + env.get("LD_LIBRARY_PATH", "")
    cmd = [SOUFFLE, "--no-preprocessor", "-w", "-L" + fdir, "-lfunctors", "-F", os.path.join(d, "f"), "-D", os.path.join(d, "o"), "-j", "2" if mode == "j2" else "1", os.path.join(d, "p.dl")]
    rc, so, se = sh(cmd, timeout=120, env=env)
    res = {"pi": pi, "di": di, "mode": mode, "rc": rc, "err": se[-400:]}
    if rc == 0:
        rows = [l.split("\t") for l in open(os.path.join(d, "o", rel + ".csv")).read().splitlines()]
        res["rows"] = rows
    shutil.rmtree(d, ignore_errors=True)
    return res


DBS = []


def check(tier):
    global DBS
    rep = Report(PID, tier, "exploration")
    wd = fresh_dir(PID)
    fdir = build_functors()
    DBS = gen.dbs_core_quick() if tier == "quick" else gen.dbs_core_thorough()
    DBS = DBS + [{"a": ((0,), (3,)), "e": ((0, 1), (1, 2), (2, 3), (3, 0), (2, 2), (1, -1))}, {"a": ((2,),), "e": ((2, 2), (2, 0), (0, -3), (-3, 2))}]
    jobs = [(pi, di, mode, wd, fdir) for pi in range(len(PROGRAMS)) for di in range(len(DBS)) for mode in ("j1", "j2")]
    nontrivial = set()
    for res in pmap(_job, jobs):
        rep.add("evaluations")
        name, text, rel, nkeys, evalf = PROGRAMS[res["pi"]]
        db = DBS[res["di"]]
        rp = {"kind": "lattice", "program": HEADER + text, "facts": {"a": ["%d" % t for t in db["a"]], "e": ["%d\t%d" % t for t in db["e"]]}, "mode": res["mode"],
              "relation": rel, "nkeys": nkeys, "expected": sorted([list(k) + [v] for k, v in evalf(db).items()])}
        if res["rc"] != 0:
            rep.violation("%s failed (rc=%s): %s" % (name, res["rc"], res["err"][-200:]), rp)
            continue
        exp = evalf(db)
        got = {}
        dup = None
        for r in res["rows"]:
            k = tuple(int(x) for x in r[:nkeys])
            v = r[nkeys].lstrip("$")
            if k in got:
                dup = k
            got[k] = v
        if exp:
            nontrivial.add((res["pi"], res["di"]))
        if dup is not None:
            rep.violation("%s: two tuples for key %s" % (name, dup), rp)
        elif got != exp:
            diffk = [k for k in set(got) | set(exp) if got.get(k) != exp.get(k)][:3]
            rep.violation("%s (%s): value differs from the least fixpoint for key(s) %s: got %s expected %s" % (name, res["mode"], diffk, [got.get(k) for k in diffk], [exp.get(k) for k in diffk]), rp)
    rep.set("distinct_nontrivial", len(nontrivial))
    rep.sample({"programs": [p[0] for p in PROGRAMS], "databases": len(DBS), "example": PROGRAMS[2][1]})
    rep.set("rule", "5 lattice programs (non-recursive with key collisions, two rules, recursive with a monotone transfer functor, recursive copy, two key "
            "columns) x all databases x {-j1, -j2}; oracle = least fixpoint computed by a dedicated python evaluator per program; non-trivial = non-empty result")
    rep.assume("the functor library dlmc/native/functors.cpp implements monotone lub/glb of the two finite lattices")
    shutil.rmtree(wd, ignore_errors=True)
    return rep.finish()


def replay(obj):
    wd = fresh_dir(PID + "-replay")
    fdir = build_functors()
    os.makedirs(os.path.join(wd, "f"))
    os.makedirs(os.path.join(wd, "o"))
    for r, lines in obj["facts"].items():
        with open(os.path.join(wd, "f", r + ".facts"), "w") as f:
            f.write("".join(l + "\n" for l in lines))
    with open(os.path.join(wd, "p.dl"), "w") as f:
        f.write(obj["program"])
    env = dict(os.environ)
    env["LD_LIBRARY_PATH"] = fdir + ":" + env.get("LD_LIBRARY_PATH", "")
    rc, so, se = sh([SOUFFLE, "--no-preprocessor", "-w", "-L" + fdir, "-lfunctors", "-F", os.path.join(wd, "f"), "-D", os.path.join(wd, "o"),
                     "-j", "2" if obj.get("mode") == "j2" else "1", os.path.join(wd, "p.dl")], timeout=120, env=env)
    if rc != 0:
        return True, "rc=%s %s" % (rc, se[-300:])
    rows = sorted([[int(x) for x in l.split("\t")[:obj["nkeys"]]] + [l.split("\t")[obj["nkeys"]].lstrip("$")] for l in open(os.path.join(wd, "o", obj["relation"] + ".csv")).read().splitlines()])
    return rows != obj["expected"], "got %s expected %s" % (rows, obj["expected"])
