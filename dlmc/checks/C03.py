"""C03: results do not depend on thread count or schedule.
Layer 1 (this module, bounded-exhaustive): every program of the slice x every thread count 1..16 in the interpreter and
{1,2,4,8} in compiled code, on databases large enough for the parallel loops to be split, against the reference model.
The schedule dimension proper is decided compositionally (see DESIGN.md): the relation data structures' concurrent
insertion (C25-C31) are explored at access level by vsched."""
from ..common import *
from .. import diff, gen, gen2, families

PID = "C03"


def big_dbs():
    """databases with 40-120 tuples: ring + chords, two components, dense small"""
    n = 24
    ring = tuple((i, (i + 1) % n) for i in range(n)) + tuple((i, (i * 7 + 3) % n) for i in range(0, n, 2))
    d1 = {"a": tuple((i,) for i in range(0, n, 3)), "e": ring}
    d2 = {"a": tuple((i,) for i in range(n)), "e": tuple((i, j) for i in range(8) for j in range(8) if (i * j) % 3 != 1)}
    d3 = {"a": tuple((i,) for i in range(0, 30, 2)), "e": tuple((i, i + 1) for i in range(30)) + tuple((i + 1, i) for i in range(0, 30, 5))}
    return [d1, d2, d3]


def check(tier):
    rep = Report(PID, tier, "exploration")
    dl = Deadline(480 if tier == "quick" else 3300)
    threads = list(range(1, 17))
    icfg = [diff.Config("interp-j%d" % j, "interp", j) for j in threads]
    ccfg = [diff.Config("compiled-j%d" % j, "compiled", j) for j in (1, 2, 4, 8)]
    dbs = big_dbs()
    fams = []
    core1 = families.core_cases(1)
    core2 = families.core_cases(2, terms=("x", "y"), consts=(), cmp_ops=("<",))
    fams.append(("core1", core1))
    fams.append(("core2xy", core2[::5] if tier == "quick" else core2))
    fams.append(("mutrec", gen2.family_mutrec("quick")))
    fams.append(("multirec", gen2.family_multirec("quick")[:: (2 if tier == "quick" else 1)]))
    fams.append(("strat", gen2.family_strat("quick", subset=("neg", "rec", "recneg"))[:: (3 if tier == "quick" else 1)]))
    fams.append(("agg", gen2.family_agg("quick")[:: (2 if tier == "quick" else 1)]))
    # (the list-building cases of family `rec` are exponential in the size of a/1: not on the large databases)
    fams.append(("rec", [c for c in gen2.family_rec("quick") if "lists" not in c.desc]))
    fams.append(("shape", gen2.family_shape("quick")))
    for name, cases in fams:
        if dl.expired():
            rep.capped("deadline before " + name)
            continue
        diff.differential(rep, cases, dbs if tier != "quick" else dbs[:2], icfg, name, batch_size=120, deadline=dl, timeout=300)
        rep.sample({"family": name, "cases": len(cases), "thread_counts": threads}, cap=20)
    for name, cases in fams[:4]:
        if dl.expired():
            rep.capped("deadline before compiled " + name)
            continue
        diff.differential(rep, cases, dbs[:2], ccfg, name + "-c", batch_size=100, deadline=dl, timeout=300)
    rep.set("rule", "every program of the slice x thread counts 1..16 (interpreter) and 1,2,4,8 (compiled) on databases with 40-120 tuples; outputs "
            "compared with the reference model (so with the single-threaded result)")
    rep.assume("thread-count sweeps on the real binaries run under whatever OS schedule occurs; schedules are enumerated for generated code under the OpenMP shim and "
               "for the relation data structures themselves (C25-C31)")
    # schedule dimension: generated code under the vsched scheduler with the OpenMP shim (all chunk assignments and access
    # interleavings up to the preemption bound on small driver programs)
    from .. import gomp_cases
    gomp_cases.run_gomp(rep, tier, Deadline(300 if tier == "quick" else 1500), "C03")
    return rep.finish()


def replay(obj):
    if obj.get("kind") == "vsched":
        from .. import vs
        import os
        exe = os.path.join(VBUILD, "gomp", obj["extra"]["gomp"], "harness")
        return vs.replay_schedule(exe, obj["scenario"], obj["schedule"], obj["bound"], obj.get("dpoints", 1), obj.get("horizon", 20000), obj.get("conflicts", ()))
    return diff.replay_dl(obj)
