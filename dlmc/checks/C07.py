"""C07: query plans and profile-guided scheduling preserve results — every permutation of the body atoms for every delta
version of every clause with >= 2 atoms (as .plan), and auto-scheduling from a profile of the same run."""
from ..common import *
from .. import diff, gen, gen2, gen4, families

PID = "C07"


def check(tier):
    rep = Report(PID, tier, "exploration")
    dl = Deadline(480 if tier == "quick" else 3300)
    base = []
    core = families.core_cases(2, terms=("x", "y"), consts=(), cmp_ops=("<",)) if tier == "quick" else families.core_cases(2)
    base += [c for c in core]
    base += gen2.family_multirec(tier)
    planned = []
    n = 0
    for c in base:
        for pc in gen4.with_plans(c):
            planned.append(gen4.rename_case(pc, n) if False else pc)
            n += 1
    # relation names repeat across plan variants of one case: one variant per batch position -> rename by fresh ids
    fresh = []
    for i, pc in enumerate(planned):
        src_cid = pc.cid // 100
        q = gen4.rename_case(gen.Case(src_cid, pc.family, pc.prog, pc.desc), 100000 + i)
        fresh.append(q)
    dbs = gen.dbs_core_quick()
    if tier == "quick":
        dbs = dbs[-8:]
    cfg = [diff.Config("interp-j1", "interp", 1)]
    diff.differential(rep, fresh, dbs, cfg, "plans", batch_size=150, deadline=dl)
    rep.sample({"family": "plans", "cases": len(fresh), "example": fresh[len(fresh) // 2].desc})
    # profile-guided auto-scheduling: first run writes the profile, second run uses it
    auto = [diff.Config("profile", "interp", 1, extra=("-p", "{shared}/prof.json", "--emit-statistics")),
            diff.Config("auto-schedule", "interp", 1, extra=("--auto-schedule={shared}/prof.json",))]
    sl = [("core2xy", core[:: (4 if tier == "quick" else 1)]), ("multirec", gen2.family_multirec(tier)), ("mutrec", gen2.family_mutrec("quick"))]
    for name, cases in sl:
        if dl.expired():
            rep.capped("deadline before auto-schedule " + name)
            continue
        diff.differential(rep, cases, dbs[-4:], auto, "auto-" + name, batch_size=100, deadline=dl)
        rep.sample({"family": "auto-schedule " + name, "cases": len(cases)})
    rep.set("rule", "every clause with 2-3 body atoms x every permutation per delta version (product over versions when <= 24 plans) as a .plan; "
            "plus: run with -p --emit-statistics, then re-run with --auto-schedule on that profile; outputs compared with the reference model; "
            "plans rejected by the plan checker are counted in rejected_by_souffle")
    return rep.finish()


def replay(obj):
    return diff.replay_dl(obj)
