"""C10: choice-domain results are functional, sound and maximal — choice programs (single / several / composite keys,
recursive and not) x databases x modes x thread counts 1..16: no two tuples agree on a key, every tuple is an immediate
consequence of the final database, every immediate consequence that is absent clashes on a key with a present tuple."""
from ..common import *
from .. import diff, gen, gen4, ref
from .C03 import big_dbs

PID = "C10"


def oracle(case, db, rel, got, exp):
    keys = case.tags[1]
    for key in keys:
        seen = {}
        for t in got:
            k = tuple(t[i] for i in key)
            if k in seen and seen[k] != t:
                return "two tuples agree on key columns %s: %s and %s" % (list(key), seen[k], t)
            seen[k] = t
    # T_P(final database): the rules applied once to EDB + the final relation itself
    q = case.ref_prog
    full = {n: set(db.get(n, ())) for n in q.rels}
    full[rel] = set(got)
    tp = ref.immediate_consequences(q, full, {rel}).get(rel, set())
    bad = got - tp
    if bad:
        return "tuple(s) %s are not derivable from the final database" % sorted(bad)[:3]
    for t in tp - got:
        clash = False
        for key in keys:
            kt = tuple(t[i] for i in key)
            if any(tuple(u[i] for i in key) == kt for u in got):
                clash = True
                break
        if not clash:
            return "derivable tuple %s is absent although it clashes with no present tuple on any key" % (t,)
    return None


def check(tier):
    rep = Report(PID, tier, "exploration")
    dl = Deadline(420 if tier == "quick" else 3000)
    cases = gen4.family_choice(tier)
    dbs = (gen.dbs_core_quick() if tier == "quick" else gen.dbs_core_thorough()) + big_dbs()
    icfg = [diff.Config("interp-j%d" % j, "interp", j) for j in range(1, 17)]
    ccfg = [diff.Config("compiled-j%d" % j, "compiled", j) for j in ((1, 4) if tier == "quick" else (1, 2, 4, 8, 16))]
    diff.differential(rep, cases, dbs, icfg + ccfg, "choice", batch_size=10, deadline=dl, oracle=oracle, timeout=300)
    rep.sample({"family": "choice", "cases": [c.desc for c in cases][:4], "databases": len(dbs)})
    rep.set("rule", "8 choice-domain programs (key x, key y, two keys, composite key, two rules, join, recursive tree / chain) x all databases of the "
            "enumeration + three 40-120 tuple databases x interpreter -j1..16 and compiled; per-run oracle: functional on every key, sound and maximal "
            "with respect to T_P of the final database (computed by the reference evaluator)")
    rep.assume("interleavings inside one thread count are not enumerated here")
    # schedule dimension: generated code under the vsched scheduler with the OpenMP shim (all chunk assignments and access
    # interleavings up to the preemption bound on small driver programs)
    from .. import gomp_cases
    gomp_cases.run_gomp(rep, tier, Deadline(300 if tier == "quick" else 1500), "C10")
    return rep.finish()


def replay(obj):
    if obj.get("kind") == "vsched":
        from .. import vs
        import os
        exe = os.path.join(VBUILD, "gomp", obj["extra"]["gomp"], "harness")
        return vs.replay_schedule(exe, obj["scenario"], obj["schedule"], obj["bound"], obj.get("dpoints", 1), obj.get("horizon", 20000), obj.get("conflicts", ()))
    def judge(rel, got, exp, o):
        keys = o["tags"][1]
        rows = [l.split("\t") for l in got]
        for key in keys:
            ks = [tuple(r[i] for i in key) for r in rows]
            if len(set(ks)) != len(ks):
                return True
        return not set(got) <= set(exp) and o["tags"][2] not in ("recursive-tree", "recursive-chain")
    return diff.replay_dl(obj, judge=judge)
