"""C20: profiling is transparent and reports true relation sizes — every program of the slice run with -p at 1 and 4 threads:
outputs equal the reference model, and the TUPLES column of `souffleprof -c rel` equals the final size of every relation."""
import os, re
from ..common import *
from .. import diff, families, ref

PID = "C20"


def post_run(batch, db, cfg, out_dir, shared):
    prof = os.path.join(shared, "prof_%s.json" % cfg.name)
    if not os.path.exists(prof):
        return [(batch[0].cid, "no profile written")]
    rc, so, se = sh([SOUFFLEPROF, prof, "-c", "rel"], timeout=300)
    if rc != 0:
        return [(batch[0].cid, "souffleprof failed rc=%s: %s" % (rc, se[-200:]))]
    sizes = {}
    for line in so.splitlines():
        m = re.match(r"\s*\S+\s+\S+\s+\S+\s+\S+\s+\S+\s+\S+\s+(\S+)\s+(\S+)\s+(\S+)\s+(R\d+)\s+(\S+)\s*$", line)
        if m:
            sizes[m.group(5)] = m.group(1)
    out = []
    for c in batch:
        try:
            full = ref.evaluate(c.prog, db if c.edb is None else c.edb)
        except Exception:
            continue
        for n, r in c.prog.rels.items():
            if r.is_input or "eqrel" in r.quals or n not in sizes:
                continue
            want = len(full[n])
            got = sizes[n]
            if re.fullmatch(r"[0-9]+", got) and int(got) != want:
                out.append((c.cid, "profile reports %s tuples for relation %s which holds %d" % (got, n, want)))
    return out


def check(tier):
    rep = Report(PID, tier, "exploration")
    dl = Deadline(480 if tier == "quick" else 3300)
    cfgs = [diff.Config("prof-j1", "interp", 1, extra=("-p", "{shared}/prof_prof-j1.json")),
            diff.Config("prof-j4", "interp", 4, extra=("-p", "{shared}/prof_prof-j4.json"))]
    for name, cases, dbs in families.compiled_slice("quick"):
        if dl.expired():
            rep.capped("deadline before " + name)
            continue
        if name in ("core2xy", "strat") and tier == "quick":
            cases = cases[::4]
        d2 = dbs[-5:] if len(dbs) > 5 else dbs
        diff.differential(rep, cases, d2, cfgs, name, batch_size=60, deadline=dl, post_run=post_run)
        rep.sample({"family": name, "cases": len(cases), "databases": len(d2)}, cap=20)
    rep.set("rule", "every program x databases x {-j1, -j4} with -p: outputs = reference model; for every non-input, non-eqrel relation listed by "
            "`souffleprof -c rel` the TUPLES value equals the size of the relation in the reference model")
    return rep.finish()


def replay(obj):
    if obj.get("kind") != "dl-post":
        return diff.replay_dl(obj)
    # re-run the single program with -p and compare the profile's TUPLES with the size named in the recorded message
    wd = fresh_dir(PID + "-replay")
    os.makedirs(os.path.join(wd, "f"))
    os.makedirs(os.path.join(wd, "o"))
    for r, lines in obj.get("facts", {}).items():
        with open(os.path.join(wd, "f", r + ".facts"), "w") as f:
            f.write("".join(l + "\n" for l in lines))
    with open(os.path.join(wd, "p.dl"), "w") as f:
        f.write(obj["program"])
    prof = os.path.join(wd, "prof.json")
    rc, so, se = sh([SOUFFLE, "--no-preprocessor", "-w", "-F", os.path.join(wd, "f"), "-D", os.path.join(wd, "o"), "-j", str(obj["config"]["jobs"]), "-p", prof, os.path.join(wd, "p.dl")], timeout=300)
    rc2, tab, _ = sh([SOUFFLEPROF, prof, "-c", "rel"], timeout=300)
    m = re.search(r"reports (\S+) tuples for relation (\S+) which holds (\d+)", obj.get("why", ""))
    bad = True
    if m:
        for line in tab.splitlines():
            f = line.split()
            if f and f[-1] == m.group(2) and len(f) >= 11:
                bad = f[6] != m.group(3)
    return bad, tab[-1500:]
