"""C30: optimistic read-write lock protocol — all interleavings (preemption-bounded) of small client mixes on the
real OptimisticReadWriteLock, with ghost data checking mutual exclusion, validation soundness and abort."""
from ..common import *
from .. import vs

PID = "C30"
BUILD_TARGETS = ()


def check(tier):
    rep = Report(PID, tier, "model_checking")
    dl = Deadline(540 if tier == "quick" else 3000)
    exe = vs.build_harness("c30_lock")
    sc = vs.list_scenarios(exe)
    two = [i for i, d in sc if d.count("[") == 2 and all(len(x.split()) <= 2 for x in d.split("]"))]
    n2 = 28   # 2 clients x 1 program
    n3 = 84   # 3 clients x 1 program
    if tier == "quick":
        vs.explore_all(rep, "c30_lock", list(range(0, n2)), bound=3, deadline=dl)
        vs.explore_all(rep, "c30_lock", list(range(n2, n2 + n3)), bound=2, budget_per_scenario=60, deadline=dl)
    else:
        vs.explore_all(rep, "c30_lock", list(range(0, n2)), bound=4, deadline=dl)
        vs.explore_all(rep, "c30_lock", list(range(n2, n2 + n3)), bound=3, budget_per_scenario=120, deadline=dl)
        vs.explore_all(rep, "c30_lock", list(range(n2 + n3, len(sc))), bound=2, budget_per_scenario=60, deadline=dl)
    rep.set("rule", "scenario = multiset of client programs {read, read-read, write, trywrite, upgrade, write-abort, upgrade-abort}; every "
            "schedule with at most `bound` preemptions at atomic operations and conflicting plain accesses is executed on the real lock")
    rep.assume("sequentially consistent executions; compare_exchange_weak never fails spuriously")
    return rep.finish()


def replay(obj):
    return vs.replay_vs(obj)
