"""C24: intrinsic functors and constraints follow their value semantics — every operator x operand type on a
boundary grid united with a small full cube, arguments loaded from fact files (nothing folded) and written as
literals, interpreter and compiled, against an independent Python model of the C-like semantics."""
from ..common import *
from .. import diff, gen3

PID = "C24"


def check(tier):
    rep = Report(PID, tier, "exploration")
    dl = Deadline(420 if tier == "quick" else 3000)
    cfgs = [diff.Config("interp-j1", "interp", 1), diff.Config("compiled-g-j1", "compiled", 1)]
    cases, skipped = gen3.family_functors(tier)
    rep.add("argument_tuples_outside_defined_domain", skipped)
    diff.differential(rep, cases, None, cfgs, "functors", batch_size=40, deadline=dl)
    rep.sample({"family": "functor", "cases": len(cases), "example": cases[3].desc})
    lits, sk2 = gen3.family_functors(tier, literals=True)
    diff.differential(rep, lits, None, cfgs, "functor-literals", batch_size=30, deadline=dl)
    rep.sample({"family": "functor-literals", "cases": len(lits), "example": lits[0].desc})
    sc = gen3.family_strfunctors(tier)
    diff.differential(rep, sc, None, cfgs, "strings", batch_size=40, deadline=dl)
    rep.sample({"family": "strings", "cases": len(sc), "example": sc[2].desc})
    rep.set("tuples_checked", sum(len(t) for c in cases + sc for t in c.edb.values()) + sum(len(c.prog.rules) for c in lits))
    rep.set("rule", "case = one operator at one operand type with an input relation holding every argument tuple of the grid on which the "
            "documented semantics define the result; non-trivial = at least one tuple; distinct by (operator, type)")
    rep.assume("Python model dlmc/vals.py of the documented C-like semantics; signed overflow, division by zero, out-of-range conversions, NaN results, "
               "powf results that are not exactly representable are outside the defined domain and skipped")
    return rep.finish()


def replay(obj):
    return diff.replay_dl(obj)
