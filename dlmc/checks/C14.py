"""C14: arbitrary program text never crashes the compiler — (a) every string over a 14-character alphabet up to length 3
(thorough 4), (b) every single-token deletion / substitution / insertion (token alphabet of ~30 tokens) of seed programs
covering every syntactic feature; souffle must end with exit status 0 or 1, never by a signal, an assertion or an
internal-error abort, and never hang."""
import itertools, os, re, shutil
from ..common import *

PID = "C14"
CHARS = ["a", "(", ")", ",", ".", ":", "-", '"', "1", "_", "!", "=", "[", "\n"]
TOKENS = [".decl", ".input", ".output", ".type", ".comp", ".init", ".plan", ".functor", ":-", ".", ",", "(", ")", "[", "]", "{", "}", "!", "=", "<", ":", ";", "_", "x", "r",
          "1", "-1", '"s"', "number", "symbol", "count", "sum", "min", "nil", "$", "+", "|", "<=", "eqrel", "inline", "choice-domain", "autoinc()", "as", "range"]

SEEDS = {
    "basic": ".decl e(x:number, y:number)\n.input e\n.decl p(x:number, y:number)\n.output p\np(x,y) :- e(x,y).\np(x,z) :- p(x,y), e(y,z), !e(z,x), x < z.\n",
    "agg": ".decl e(x:number, y:number)\ne(1,2). e(2,3).\n.decl r(x:number, c:number)\n.output r\nr(x,c) :- e(x,_), c = count : { e(x,_) }.\nr(x,s) :- e(x,_), s = sum y : { e(x,y) }.\n",
    "record": ".type P = [a:number, b:symbol]\n.decl r(p:P)\n.output r\nr([1,\"a\"]).\nr(nil).\n.decl u(x:number)\n.output u\nu(x) :- r([x,_]).\n",
    "adt": ".type T = N {x:number} | L {l:T, r:T} | E {}\n.decl t(v:T)\n.output t\nt($N(1)).\nt($L($E(), $N(2))).\n.decl s(x:number)\n.output s\ns(x) :- t($N(x)).\n",
    "comp": ".comp C<T> { .decl r(x:T)\n r(1). }\n.init c = C<number>\n.decl o(x:number)\n.output o\no(x) :- c.r(x).\n",
    "functor": ".decl n(x:number)\nn(1). n(5).\n.decl r(x:number, s:symbol)\n.output r\nr(x + 1, cat(to_string(x), \"a\")) :- n(x), x band 1 = 1.\nr(y, \"r\") :- y = range(0, 3).\n",
    "choice": ".decl e(x:number, y:number)\ne(1,2). e(1,3).\n.decl c(x:number, y:number) choice-domain x\n.output c\nc(x,y) :- e(x,y).\n",
    "subsume": ".decl d(x:number, c:number)\n.output d\nd(1,5). d(1,3).\nd(x,c1) <= d(x,c2) :- c2 < c1.\n",
    "eqrel-plan": ".decl e(x:number, y:number)\ne(1,2).\n.decl q(x:number, y:number) eqrel\n.output q\nq(x,y) :- e(x,y).\n.decl p(x:number, y:number)\n.output p\np(x,z) :- q(x,y), e(y,z).\n.plan 0:(2,1)\n",
    "types": ".type A <: number\n.type B = A | number\n.decl r(a:A, b:B, f:float, u:unsigned)\n.output r\nr(as(1, A), 2, 1.5, 3u).\n",
    "disj-multi": ".decl a(x:number)\na(1). a(2).\n.decl r(x:number)\n.decl s(x:number)\n.output r, s\nr(x), s(x) :- a(x), (x = 1 ; x > 1).\n",
    "io": ".decl a(x:number, s:symbol)\n.input a(IO=file, filename=\"none.facts\", delimiter=\",\")\n.output a(IO=stdout)\n.printsize a\n.limitsize a(n=3)\n",
}


def _run(arg):
    i, text, wd = arg
    p = os.path.join(wd, "m%d.dl" % i)
    with open(p, "w", encoding="latin-1") as f:
        f.write(text)
    cmd = [SOUFFLE, "--no-preprocessor", "--show=transformed-ram", p]
    rc, so, se = sh(cmd, timeout=20)
    if rc is None:
        rc, so, se = sh(cmd, timeout=200)
    os.unlink(p)
    bad = None
    if rc is None:
        bad = "hang (no result within 200 s)"
    elif rc < 0:
        bad = "killed by signal %d" % (-rc)
    elif rc not in (0, 1):
        bad = "exit status %d" % rc
    elif re.search(r"Assertion|assert|internal error|Internal error|ICE|fatal|terminate called|std::bad_|core dumped", se):
        bad = "diagnostic of an internal failure: " + se[-200:]
    return i, rc, bad, se[-300:]


def _run_many(args):
    return [_run(a) for a in args]


def tokenize(text):
    return re.findall(r'"[^"\n]*"|\.[a-z]+|:-|<=|>=|!=|[A-Za-z_][A-Za-z_0-9]*|[0-9]+|\s+|.', text)


def check(tier):
    rep = Report(PID, tier, "exploration")
    wd = fresh_dir(PID)
    dl = Deadline(480 if tier == "quick" else 3300)
    texts = []
    n = 3 if tier == "quick" else 4
    for k in range(1, n + 1):
        for t in itertools.product(CHARS, repeat=k):
            texts.append(("string", "".join(t)))
    nstrings = len(texts)
    seeds = list(SEEDS.items())
    alpha = TOKENS if tier != "quick" else TOKENS[:: 3]
    for si, (sname, src) in enumerate(seeds):
        toks = tokenize(src)
        idx = [i for i, t in enumerate(toks) if not t.isspace()]
        for i in idx:
            texts.append(("del:" + sname, "".join(toks[:i] + toks[i + 1:])))
            for a in alpha:
                if a != toks[i]:
                    texts.append(("sub:" + sname, "".join(toks[:i] + [a] + toks[i + 1:])))
            if tier != "quick" or i % 3 == 0:
                for a in alpha:
                    texts.append(("ins:" + sname, "".join(toks[:i] + [a, " "] + toks[i:])))
        texts.append(("seed:" + sname, src))
    # dedupe
    seen = set()
    uniq = []
    for kind, t in texts:
        if t not in seen:
            seen.add(t)
            uniq.append((kind, t))
    outcomes = {}
    jobs = [(i, t, wd) for i, (k, t) in enumerate(uniq)]
    done = 0
    results = (r for group in pmap_unordered(_run_many, list(chunks(jobs, 64))) for r in group)
    for i, rc, bad, se in results:
        done += 1
        if dl.expired():
            rep.capped("deadline: %d of %d inputs were run (short strings first, then the token edits seed by seed)" % (done, len(jobs)))
            break
        rep.add("evaluations")
        kind = uniq[i][0].split(":")[0]
        outcomes[(kind, rc)] = outcomes.get((kind, rc), 0) + 1
        if bad:
            rep.violation("%s on a %s input: %r" % (bad, uniq[i][0], uniq[i][1][:200]), {"kind": "text", "text": uniq[i][1], "why": bad})
    rep.set("distinct_nontrivial", len(uniq))
    rep.set("short_strings", nstrings)
    rep.set("token_edits", len(uniq) - nstrings)
    rep.set("outcomes", {"%s rc=%s" % k: v for k, v in sorted(outcomes.items(), key=str)})
    rep.set("distinct_outcomes", len(outcomes))
    rep.sample({"string": uniq[500][1], "edit": uniq[-200][1][:200]})
    rep.set("rule", "all strings over %r up to length %d; every single-token deletion, substitution and insertion (token alphabet of %d tokens) of %d seed "
            "programs; run through the whole front and middle end (--show=transformed-ram, no evaluation)" % ("".join(CHARS), n, len(alpha), len(seeds)))
    rep.assume("evaluation of accepted mutants is not run (a mutated program may legitimately diverge)")
    shutil.rmtree(wd, ignore_errors=True)
    return rep.finish()


def replay(obj):
    wd = fresh_dir(PID + "-replay")
    i, rc, bad, se = _run((0, obj["text"], wd))
    return bad is not None, "rc=%s %s %s" % (rc, bad, se[-200:])
