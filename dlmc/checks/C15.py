"""C15: printing a parsed program and reparsing it is lossless — for every program: P1 = print(parse(src)) parses, print(parse(P1))
= P1 textually, and P1 computes the reference model of src."""
import os
from ..common import *
from .. import diff, gen, gen4, families

PID = "C15"


def show_ast(path):
    return sh([SOUFFLE, "--no-preprocessor", "-w", "--show=initial-ast", path], timeout=600)


def transform(bi, text, wd):
    src = os.path.join(wd, "src%d.dl" % bi)
    with open(src, "w", encoding="latin-1") as f:
        f.write(text)
    rc, p1, se = show_ast(src)
    if rc != 0:
        raise diff.TransformViolation("generated program is not accepted by --show=initial-ast (rc=%s): %s" % (rc, se[-300:]), se)
    p1f = os.path.join(wd, "p1_%d.dl" % bi)
    with open(p1f, "w", encoding="utf-8") as f:
        f.write(p1)
    rc, p2, se = show_ast(p1f)
    if rc != 0:
        raise diff.TransformViolation("the printed program does not parse again (rc=%s): %s" % (rc, se[-400:]), p1[-3000:])
    if p1 != p2:
        l1, l2 = p1.splitlines(), p2.splitlines()
        k = next((i for i in range(min(len(l1), len(l2))) if l1[i] != l2[i]), min(len(l1), len(l2)))
        raise diff.TransformViolation("printing is not a fixpoint: line %d %r became %r" % (k, l1[k] if k < len(l1) else None, l2[k] if k < len(l2) else None), p1[-2000:])
    return p1


def check(tier):
    rep = Report(PID, tier, "exploration")
    dl = Deadline(420 if tier == "quick" else 3000)
    cfg = [diff.Config("interp-j1", "interp", 1)]
    fams = families.compiled_slice("quick")
    for name, cases, dbs in fams:
        if dl.expired():
            rep.capped("deadline before " + name)
            continue
        d2 = dbs[-4:] if tier == "quick" else dbs      # the printed program is additionally RUN on a few databases
        diff.differential(rep, cases, d2, cfg, name, batch_size=100, deadline=dl, text_transform=transform)
        rep.sample({"family": name, "cases": len(cases)}, cap=20)
    pf = gen4.family_printforms(tier)
    diff.differential(rep, pf, None, cfg, "printforms", batch_size=30, deadline=dl, text_transform=transform)
    rep.sample({"family": "printforms", "cases": len(pf), "example": pf[40].desc})
    rep.set("rule", "every program of every family (batched): printed form parses, printing it again gives the same text, and the printed "
            "program computes the reference model; plus expression trees over every operator (precedence, associativity, unary minus) and all "
            "strings over {a, quote, backslash, newline, tab, space} up to length 2 (thorough 3) as symbol constants")
    return rep.finish()


def replay(obj):
    if obj.get("kind") == "dl-transform":
        wd = fresh_dir(PID + "-replay")
        try:
            transform(0, obj["program"], wd)
        except diff.TransformViolation as e:
            return True, str(e)
        return False, "fixpoint ok"
    return diff.replay_dl(obj)
