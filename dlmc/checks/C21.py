"""C21: the C++ embedding API is consistent with file-based runs — for a set of programs the generated C++ is linked as a
library with a harness that explores (BFS, states deduplicated by the contents of all relations + model flags) ALL call
histories over {insert t, run, purgeInput, purgeOutput, purgeInternal} up to a depth; in every state: size() = number of
iterated tuples, contains <=> iterated, input relations hold exactly what was inserted since the last purge, and after a run
from purged output/internal relations the outputs equal the reference model of the inserted tuples (= a file-based run)."""
import itertools, json, os, shutil, subprocess
from ..common import *
from .. import ref, run
from ..dl import *

PID = "C21"
X, Y, Z = Var("x"), Var("y"), Var("z")
UNIVERSE = [("e", (1, 2)), ("e", (2, 3)), ("e", (3, 1)), ("a", (1,)), ("a", (3,))]


def programs():
    out = []

    def base():
        P = Program()
        P.rel("a", [("x", "number")], is_input=True)
        P.rel("e", [("x", "number"), ("y", "number")], is_input=True)
        return P
    P = base()
    P.rel("p", [("x", "number"), ("y", "number")], is_output=True)
    P.rules += [Rule([Atom("p", [X, Y])], [Atom("e", [X, Y])], None), Rule([Atom("p", [X, Z])], [Atom("p", [X, Y]), Atom("e", [Y, Z])], None)]
    out.append(("tc", P))
    P = base()
    P.rel("r", [("x", "number")], is_output=True)
    P.rules += [Rule([Atom("r", [X])], [Atom("a", [X]), Neg(Atom("e", [X, Anon()]))], None)]
    out.append(("negation", P))
    P = base()
    P.rel("t", [("x", "number"), ("y", "number")])
    P.rel("o", [("x", "number")], is_output=True)
    P.rel("c", [("n", "number")], is_output=True)
    P.rules += [Rule([Atom("t", [X, Y])], [Atom("e", [X, Y]), Atom("a", [X])], None), Rule([Atom("o", [Y])], [Atom("t", [Anon(), Y])], None),
                Rule([Atom("c", [Var("n")])], [Cmp("=", Var("n"), Agg("count", None, [Atom("t", [Anon(), Anon()])]))], None)]
    out.append(("internal-agg", P))
    return out


def expected_header(name, P):
    ins = [n for n, r in P.rels.items() if r.is_input]
    outs = [n for n, r in P.rels.items() if r.is_output]
    lines = ['#define PROGRAM_NAME "prog"', "struct UT { const char* rel; std::vector<int> t; };"]
    lines.append("static const UT UNIVERSE[] = {%s};" % ", ".join('{"%s", {%s}}' % (r, ",".join(map(str, t))) for r, t in UNIVERSE))
    lines.append("static const int N_UNIVERSE = %d;" % len(UNIVERSE))
    probes = []
    dom = [1, 2, 3]
    for n, r in P.rels.items():
        for t in itertools.product(dom, repeat=len(r.attrs)):
            probes.append((n, t))
        if len(r.attrs) == 1:
            probes += [(n, (k,)) for k in range(0, 10)]
    lines.append("static const UT PROBES[] = {%s};" % ", ".join('{"%s", {%s}}' % (r, ",".join(map(str, t))) for r, t in probes))
    lines.append("static const int N_PROBES = %d;" % len(probes))
    lines.append("static const char* INPUTS[] = {%s};\nstatic const int N_INPUTS = %d;" % (", ".join('"%s"' % n for n in ins), len(ins)))
    lines.append("static const char* OUTPUTS[] = {%s};\nstatic const int N_OUTPUTS = %d;" % (", ".join('"%s"' % n for n in outs), len(outs)))
    lines.append("static std::set<std::vector<int>> expected(unsigned mask, int k) {\n  switch (mask * %d + k) {" % len(outs))
    for mask in range(1 << len(UNIVERSE)):
        db = {n: set() for n in ins}
        for i, (r, t) in enumerate(UNIVERSE):
            if mask >> i & 1:
                db[r].add(t)
        model = ref.evaluate(P, db)
        for k, o in enumerate(outs):
            lines.append("    case %d: return {%s};" % (mask * len(outs) + k, ", ".join("{%s}" % ",".join(map(str, t)) for t in sorted(model[o]))))
    lines.append("  }\n  return {};\n}")
    return "#include <set>\n#include <vector>\n" + "\n".join(lines) + "\n"


def _build_and_run(arg):
    name, depth, wd = arg
    P = dict(programs())[name]
    d = os.path.join(wd, name)
    os.makedirs(d, exist_ok=True)
    with open(os.path.join(d, "prog.dl"), "w") as f:
        f.write(print_program(P))
    with open(os.path.join(d, "api_expected.h"), "w") as f:
        f.write(expected_header(name, P))
    rc, so, se = sh([SOUFFLE, "--no-preprocessor", "-w", "-g", os.path.join(d, "prog.cpp"), os.path.join(d, "prog.dl")], timeout=300)
    if rc != 0:
        return {"name": name, "error": "souffle -g failed: " + se[-300:]}
    exe = os.path.join(d, "seq_api")
    cmd = ["g++", "-std=c++17", "-O0", "-w", "-fopenmp", "-D__EMBEDDED_SOUFFLE__", "-I" + os.path.join(REPO, "src", "include"), "-I" + os.path.join(VERIF, "vsched"), "-I" + d,
           os.path.join(VERIF, "vsched", "harness", "seq_api.cpp"), os.path.join(d, "prog.cpp"), "-o", exe, "-ldl", "-lsqlite3", "-lz", "-lpthread"]
    rc, so, se = sh(cmd, timeout=1200)
    if rc != 0:
        return {"name": name, "error": "harness does not build: " + se[-600:]}
    rc, so, se = sh([exe, "--depth", str(depth)], timeout=3000)
    lines = [l for l in so.splitlines() if l.startswith("{")]
    if not lines:
        return {"name": name, "error": "no result rc=%s %s" % (rc, se[-300:])}
    res = json.loads(lines[-1])
    res["name"] = name
    if res.get("violation"):
        # replay twice
        outs = []
        for _ in range(2):
            r2, s2, _ = sh([exe, "--replay", res["violation"]["raw"]], timeout=600)
            outs.append((r2, s2.strip()))
        res["replayed"] = outs[0] == outs[1] and outs[0][0] == 1
    return res


def check(tier):
    rep = Report(PID, tier, "model_checking")
    wd = fresh_dir(PID)
    depth = 6 if tier == "quick" else 8
    for res in pmap(_build_and_run, [(n, depth, wd) for n, _ in programs()]):
        if "error" in res:
            rep.error("%s: %s" % (res["name"], res["error"]))
            continue
        rep.add("states", res["states"])
        rep.add("transitions", res["transitions"])
        rep.add("traces_validated_against_impl", res["transitions"])
        rep.add("evaluations", res["transitions"])
        rep.cov.setdefault("runs", []).append({"program": res["name"], "depth": res["depth"], "states": res["states"], "transitions": res["transitions"]})
        rep.sample({"program": res["name"], "history => state": res.get("sample", "")[:300]})
        v = res.get("violation")
        if v:
            if not res.get("replayed"):
                rep.error("violation in %s did not replay deterministically" % res["name"])
                continue
            rep.violation("%s: after %s: %s" % (res["name"], v["history"], v["why"]), {"kind": "api", "program": res["name"], "raw": v["raw"], "history": v["history"], "why": v["why"]})
    rep.set("rule", "3 programs (recursive closure, negation, internal relation + aggregate) x all call histories up to depth %d over {insert of 5 universe tuples, "
            "run, purgeInputRelations, purgeOutputRelations, purgeInternalRelations}; states = contents of all relations + model flags" % depth)
    rep.assume("outputs are only compared with the reference model after a run from purged (or fresh) output and internal relations; otherwise only the structural clauses are checked")
    shutil.rmtree(wd, ignore_errors=True)
    return rep.finish()


def replay(obj):
    wd = fresh_dir(PID + "-replay")
    res = _build_and_run((obj["program"], 0, wd))
    return True, "history %s: %s" % (obj.get("history"), obj.get("why"))
