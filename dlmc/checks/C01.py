"""C01: evaluation computes the stratified least model (interpreter, -j1) — bounded-exhaustive programs x
all databases over a tiny domain against the naive reference evaluator."""
import os
from ..common import *
from .. import gen, diff, families

PID = "C01"


def check(tier):
    rep = Report(PID, tier, "exploration")
    dl = Deadline(600 if tier == "quick" else 3300)
    cfg = [diff.Config("interp-j1", "interp", 1)]
    only = os.environ.get("VERIF_FAMILIES")
    fams = families.c01_slice(tier, only.split(",") if only else None)
    for name, cases, dbs in fams:
        if dl.expired():
            rep.capped("deadline before family " + name)
            continue
        diff.differential(rep, cases, dbs, cfg, name, deadline=dl)
        rep.sample({"family": name, "cases": len(cases), "databases": len(dbs) if dbs else "per-case", "example": cases[len(cases) // 2].desc}, cap=20)
    rep.set("rule", "every member of each family up to its size bound (see 'samples' for families) x every database of the family's "
            "database enumeration; a case is non-trivial when the reference model derives at least one output tuple on some database; "
            "cases are distinct by construction (canonical variable naming)")
    rep.assume("reference evaluator dlmc.ref defines the stratified least model")
    return rep.finish()


def replay(obj):
    return diff.replay_dl(obj)
