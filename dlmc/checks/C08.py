"""C08: relation representation is transparent; eqrel holds the closure — (a) core programs x every assignment of
{default, btree, brie} to their relations, interpreter and compiled; (b) eqrel relations fed by facts and rules and read
through every access pattern, over element sets that include the 32-bit extremes, against the reference closure."""
import itertools
from ..common import *
from .. import diff, gen, gen4, families
from ..gen4 import MINV

PID = "C08"


def classify(case, db, cfg, rel, why):
    # recorded finding: an eqrel lookup with a bound argument whose value is -2147483648
    if case.family != "eqrel" or db is None:
        return None
    if not any(t[0] == MINV for t in db.get("q", ())) and not any(MINV in t for t in db.get("s", ())):
        return None
    for e in load_findings(PID):
        if e["id"] == "C08-eqrel-min-sentinel":
            return e
    return None


def check(tier):
    rep = Report(PID, tier, "exploration")
    dl = Deadline(480 if tier == "quick" else 3300)
    both = [diff.Config("interp-j1", "interp", 1), diff.Config("compiled-g-j1", "compiled", 1)]
    specs = gen.enum_core(max_body=1) + (gen.enum_core(max_body=2, terms=("x", "y"), consts=(), cmp_ops=("<",))[::4] if tier == "quick"
                                         else gen.enum_core(max_body=2, terms=("x", "y"), consts=(0,), cmp_ops=("<",)))
    cases, small, extreme = gen4.family_eqrel(tier)
    diff.differential(rep, cases, small, both, "eqrel", batch_size=40, deadline=dl)
    diff.differential(rep, cases, extreme, both, "eqrel-extreme", batch_size=40, deadline=dl, classify=classify)
    multi = [diff.Config("interp-j2", "interp", 2), diff.Config("interp-j4", "interp", 4)]
    diff.differential(rep, cases, gen4.eqrel_partition_dbs(), multi, "eqrel-partition", batch_size=40, deadline=dl)
    rep.sample({"family": "eqrel-partition", "cases": len(cases), "databases": 3, "configs": "interpreter -j2 / -j4: the eqrel scan is split with partition(20 x threads)"})
    rep.sample({"family": "eqrel", "cases": len(cases), "example": cases[5].desc, "databases": len(small) + len(extreme)})
    reprs = [(), ("btree",), ("brie",)]
    k = 0
    for qp, qq in itertools.product(reprs, reprs):
        if qp == () and qq == ():
            continue
        if dl.expired():
            rep.capped("deadline before representation assignment %s/%s" % (qp, qq))
            continue
        cs = [gen.make_core_case(i, s, qp, qq, family="core-repr") for i, s in enumerate(specs)]
        cs = [c for c in cs if c is not None]
        dbs = gen.dbs_core_quick()[-6:] if tier == "quick" else gen.dbs_core_quick()
        diff.differential(rep, cs, dbs, both, "repr-%d" % k, batch_size=100, deadline=dl)
        rep.sample({"family": "core p:%s q:%s" % (qp or "default", qq or "default"), "cases": len(cs)}, cap=12)
        k += 1
    rep.set("rule", "core programs x 8 non-default assignments of {default, btree, brie} to (p, q) x databases x {interpreter, compiled}; eqrel: 3 "
            "ways of feeding the relation x 11 access patterns x 8 databases including 2^31-1 and -2^31, compared with the reference closure; "
            "the same programs at -j2 / -j4 over 3 databases with 48-89 classes or a 20-element class beside 2-3 element classes (parallel partitioned scan)")
    return rep.finish()


def replay(obj):
    return diff.replay_dl(obj)
