"""C04: optional AST optimisations and inlining preserve results — programs x {each of the nine switchable passes disabled
singly, all nine, (thorough) all pairs} and the inline family x {none, inline, no_inline}; every output must equal the
reference model (hence the default pipeline's result)."""
import itertools
from ..common import *
from .. import diff, gen, gen4, families

PID = "C04"
PASSES = ["MinimiseProgramTransformer", "RemoveRelationCopiesTransformer", "RemoveEmptyRelationsTransformer", "RemoveRedundantRelationsTransformer",
          "ReduceExistentialsTransformer", "ReplaceSingletonVariablesTransformer", "PartitionBodyLiteralsTransformer",
          "SimplifyConstantBinaryConstraintsTransformer", "RemoveRedundantSumsTransformer"]


def configs(tier):
    cfgs = [diff.Config("default", "interp", 1)]
    for p in PASSES:
        cfgs.append(diff.Config("no-" + p, "interp", 1, extra=("--disable-transformers=" + p,)))
    cfgs.append(diff.Config("no-all-nine", "interp", 1, extra=("--disable-transformers=" + ",".join(PASSES),)))
    if tier != "quick":
        for a, b in itertools.combinations(PASSES, 2):
            cfgs.append(diff.Config("no-%s+%s" % (a, b), "interp", 1, extra=("--disable-transformers=%s,%s" % (a, b),)))
    return cfgs


def classify(case, db, cfg, rel, why):
    if case.family == "inline" and "qual=inline" in case.desc and any("RemoveRedundantRelationsTransformer" in x for x in cfg.extra):
        for e in load_findings(PID):
            if e["id"] == "C04-inline-needs-redundant-removal":
                return e
    return None


def check(tier):
    rep = Report(PID, tier, "exploration")
    dl = Deadline(480 if tier == "quick" else 3300)
    cfgs = configs(tier)
    fams = families.compiled_slice("quick")
    for name, cases, dbs in fams:
        if dl.expired():
            rep.capped("deadline before " + name)
            continue
        d2 = dbs[-6:] if (tier == "quick" and len(dbs) > 6) else dbs
        diff.differential(rep, cases, d2, cfgs, name, batch_size=100, deadline=dl)
        rep.sample({"family": name, "cases": len(cases), "databases": len(d2), "configurations": len(cfgs)}, cap=20)
    inl = gen4.family_inline(tier)
    idbs = gen.dbs_core_quick()[-8:]
    safe = [c for c in cfgs if not any("RemoveRedundantRelationsTransformer" in x for x in c.extra)]
    risky = [c for c in cfgs if any("RemoveRedundantRelationsTransformer" in x for x in c.extra)]
    if tier == "quick":
        safe, risky = safe[:3], risky[-1:]
    diff.differential(rep, inl, idbs, safe, "inline", batch_size=60, deadline=dl, on_reject="count")
    plain = [c for c in inl if "qual=inline" not in c.desc]
    marked = [c for c in inl if "qual=inline" in c.desc]
    diff.differential(rep, plain, idbs, risky, "inline-rrr", batch_size=60, deadline=dl, on_reject="count")
    # the recorded finding (inline + RemoveRedundantRelations disabled) aborts: one program per run so that each is classified
    diff.differential(rep, marked, idbs[-2:], risky, "inline-rrr-marked", batch_size=1, deadline=dl, on_reject="count", classify=classify)
    rep.sample({"family": "inline", "cases": len(inl), "example": inl[100].desc})
    rep.set("rule", "every program of the families x every listed pass configuration x databases, compared with the reference model; inline family = "
            "8 helper definitions x 11 use sites x {none, inline, no_inline}; annotation/use-site combinations that souffle's checker rejects are "
            "counted in rejected_by_souffle and skipped")
    return rep.finish()


def replay(obj):
    return diff.replay_dl(obj)
