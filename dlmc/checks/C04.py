"""C04: optional AST optimisations and inlining preserve results — programs x {each of the nine switchable passes disabled
singly, all nine, (thorough) all pairs} and the inline family x {none, inline, no_inline}; every output must equal the
reference model (hence the default pipeline's result)."""
import itertools
from ..common import *
from .. import diff, gen, gen4, families

PID = "C04"
PASSES = ["MinimiseProgramTransformer", "RemoveRelationCopiesTransformer", "RemoveEmptyRelationsTransformer", "RemoveRedundantRelationsTransformer",
          "ReduceExistentialsTransformer", "ReplaceSingletonVariablesTransformer", "PartitionBodyLiteralsTransformer",
          "SimplifyConstantBinaryConstraintsTransformer", "RemoveRedundantSumsTransformer"]


def configs(tier):
    cfgs = [diff.Config("default", "interp", 1)]
    for p in PASSES:
        cfgs.append(diff.Config("no-" + p, "interp", 1, extra=("--disable-transformers=" + p,)))
    cfgs.append(diff.Config("no-all-nine", "interp", 1, extra=("--disable-transformers=" + ",".join(PASSES),)))
    if tier != "quick":
        for a, b in itertools.combinations(PASSES, 2):
            cfgs.append(diff.Config("no-%s+%s" % (a, b), "interp", 1, extra=("--disable-transformers=%s,%s" % (a, b),)))
    return cfgs


def check(tier):
    rep = Report(PID, tier, "exploration")
    dl = Deadline(480 if tier == "quick" else 3300)
    cfgs = configs(tier)
    fams = families.compiled_slice("quick")
    for name, cases, dbs in fams:
        if dl.expired():
            rep.capped("deadline before " + name)
            continue
        d2 = dbs[-6:] if (tier == "quick" and len(dbs) > 6) else dbs
        diff.differential(rep, cases, d2, cfgs, name, batch_size=100, deadline=dl)
        rep.sample({"family": name, "cases": len(cases), "databases": len(d2), "configurations": len(cfgs)}, cap=20)
    inl = gen4.family_inline(tier)
    icfg = cfgs[:2] + [cfgs[-1]] if tier == "quick" else cfgs[:11]
    diff.differential(rep, inl, gen.dbs_core_quick()[-8:], icfg, "inline", batch_size=1 if False else 60, deadline=dl, on_reject="count")
    rep.sample({"family": "inline", "cases": len(inl), "example": inl[100].desc})
    rep.set("rule", "every program of the families x every listed pass configuration x databases, compared with the reference model; inline family = "
            "8 helper definitions x 11 use sites x {none, inline, no_inline}; annotation/use-site combinations that souffle's checker rejects are "
            "counted in rejected_by_souffle and skipped")
    return rep.finish()


def replay(obj):
    return diff.replay_dl(obj)
