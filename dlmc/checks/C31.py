"""C31: symbol and record interning is a bijection under concurrency — every schedule (preemption-bounded) of small
concurrent findOrInsert / encode / pack histories on the real ConcurrentFlyweight (tiny capacity, colliding hash, shared
and separate lanes), SymbolTableImpl and SpecializedRecordTable."""
from ..common import *
from .. import vs

PID = "C31"
BUILD_TARGETS = ()


def grp(d):
    return d.split(" ins:")[0].split()[-1]      # 2x1 / 1+2 / 2x2 / 3x1


def check(tier):
    rep = Report(PID, tier, "model_checking")
    dl = Deadline(420 if tier == "quick" else 3300)
    if tier == "quick":
        vs.run_plan(rep, "c31_flyweight", [("2x1", 2, 30, 1), ("1+2", 2, 30, 1), ("3x1", 1, 30, 1), ("2x2", 1, 20, 3)], dl, group_of=grp)
    else:
        vs.run_plan(rep, "c31_flyweight", [("2x1", 4, 120, 1), ("1+2", 3, 60, 1), ("3x1", 2, 60, 1), ("2x2", 2, 60, 1)], dl, group_of=grp)
    rep.set("rule", "scenario = {ConcurrentFlyweight with 1-2 lanes x initial capacity 1-2 x one-bucket/identity hash x optional pre-interned key, "
            "SymbolTableImpl, SpecializedRecordTable<0,1,2>} x concurrent op lists over a 3-key alphabet with duplicates; every schedule with at "
            "most `bound` preemptions at lock/atomic/conflicting accesses; afterwards equal keys <=> equal references, fetch/decode/unpack return "
            "the key, exactly one inserted=true per key, pack never returns nil, iteration lists every key once")
    rep.assume("sequentially consistent executions")
    return rep.finish()


def replay(obj):
    return vs.replay_vs(obj)
