"""C26: deletable B-trees behave as sorted sets — (a) explicit-state search over ALL insert/erase histories on the real
btree_delete_set / multiset with 3-key nodes (states = tree shapes, closed under the alphabet where the reachable space
is finite), (b) concurrent insertions under vsched as for C25."""
from ..common import *
from .. import vs
from . import C25

PID = "C26"
BUILD_TARGETS = ()


def check(tier):
    rep = Report(PID, tier, "model_checking")
    dl = Deadline(420 if tier == "quick" else 3300)
    if tier == "quick":
        vs.run_seq(rep, "seq_btreedelete", [(0, 20, 0), (1, 9, 0), (2, 12, 0), (3, 8, 0), (4, 6, 0), (5, 6, 0), (6, 6, 0)])
        vs.run_plan(rep, "c26_btreedelete_conc", [("2x1", 2, 30, 1), ("3x1", 1, 20, 3)], dl)
    else:
        vs.run_seq(rep, "seq_btreedelete", [(0, 30, 0), (1, 12, 2000000), (2, 30, 3000000), (3, 14, 0), (4, 9, 3000000), (5, 9, 3000000), (6, 9, 3000000)])
        vs.run_plan(rep, "c26_btreedelete_conc", [("2x1", 3, 120, 1), ("3x1", 2, 60, 1), ("2x2", 1, 30, 3)], dl)
    rep.set("rule", "sequential: breadth-first search over operation histories {insert k, erase k, erase via iterator} on keys 1..8 / 1..10 / "
            "multiset 1..4 / 7 keys spread over the 32-bit range, and every erase / re-insert history of depth <= 6 (thorough 9) from three-level trees of 18 keys "
            "built in ascending / descending / interleaved order (inner-node underflow, rebalancing from either sibling, merging); a history on which the real "
            "tree crashes or does not return within 30 s is a violation; state = printed tree shape (addresses removed), oracle in every state: iteration, "
            "size, check(), contains/find/lower_bound/upper_bound for every key and neighbour, getChunks, return values of insert/erase; "
            "concurrent: C25's scenarios on btree_delete_set")
    rep.assume("sequentially consistent executions for the concurrent part")
    return rep.finish()


def replay(obj):
    return vs.replay_any(obj)
