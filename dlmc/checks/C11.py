"""C11: subsumption leaves exactly the non-dominated derivable tuples — subsumptive programs (strict partial orders; recursive
and not) x databases x modes x thread counts: F subset of U (result without the subsumptive clause), no tuple of F dominated
by another tuple of F, for monotone-cost programs F = minimal elements of U; identical across modes (all equal the same F)."""
from ..common import *
from .. import diff, gen4, ref
from ..dl import Subsume

PID = "C11"


def dominated(sub, t1, t2, db):
    """is t1 dominated by t2 according to the subsumptive clause?"""
    env = {}
    for a, v in zip(sub.dominated.args, t1):
        env = ref.unify(a, v, env)
        if env is None:
            return False
    for a, v in zip(sub.dominating.args, t2):
        env = ref.unify(a, v, env)
        if env is None:
            return False
    for _ in ref.solve(list(sub.body), env, db, set(env)):
        return True
    return False


def oracle(case, db, rel, got, exp):
    sub = [r for r in case.prog.rules if r.__class__ is Subsume][0]
    monotone = case.tags[1]
    if not got <= exp:
        return "tuple(s) %s are not derivable without subsumption" % sorted(got - exp)[:3]
    for t1 in got:
        for t2 in got:
            if t1 != t2 and dominated(sub, t1, t2, {}):
                return "final tuple %s is dominated by final tuple %s" % (t1, t2)
    if monotone:
        minimal = {t for t in exp if not any(u != t and dominated(sub, t, u, {}) for u in exp)}
        if got != minimal:
            return "result differs from the minimal elements of the unsubsumed result: missing %s extra %s" % (sorted(minimal - got)[:3], sorted(got - minimal)[:3])
    return None


def check(tier):
    rep = Report(PID, tier, "exploration")
    dl = Deadline(420 if tier == "quick" else 3000)
    cases, dbs = gen4.family_subsume(tier)
    cfgs = [diff.Config("interp-j%d" % j, "interp", j) for j in (1, 2, 4)] + [diff.Config("compiled-j%d" % j, "compiled", j) for j in (1, 4)]
    diff.differential(rep, cases, dbs, cfgs, "subsume", batch_size=10, deadline=dl, oracle=oracle, timeout=300)
    rep.sample({"family": "subsume", "cases": [c.desc for c in cases], "databases": len(dbs)})
    rep.set("rule", "6 subsumptive programs (min / max per key, global min, lexicographic pairs, bounded shortest distance, widest path) and 22 structural "
            "programs ({direct, mutual recursion with the step in the partner / in the relation itself, three-cycle, both relations subsumptive, downstream reader} x "
            "{shortest, widest} x partner names sorting before / after the subsumptive relation) x 6 databases x "
            "interpreter -j1,2,4 and compiled -j1,4; oracle per run from the reference result U without the subsumptive clause")
    return rep.finish()


def replay(obj):
    return diff.replay_dl(obj, judge=lambda rel, got, exp, o: not set(got) <= set(exp))
