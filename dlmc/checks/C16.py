"""C16: component instantiation is equivalent to textual expansion — every program of the core slice wrapped into every
component template (single, derived, derived-of-derived, type parameter, two instances, nested instantiation, override);
outputs under the instantiated names must equal the reference model of the flat program."""
from ..common import *
from .. import diff, gen, gen4, families

PID = "C16"


def check(tier):
    rep = Report(PID, tier, "exploration")
    dl = Deadline(420 if tier == "quick" else 3000)
    flat = families.core_cases(1) + (families.core_cases(2, terms=("x", "y"), consts=(), cmp_ops=("<",)) if tier == "quick" else families.core_cases(2))
    if tier == "quick":
        flat = families.core_cases(1) + families.core_cases(2, terms=("x", "y"), consts=(), cmp_ops=("<",))[::8]
    cases = []
    for i, c in enumerate(flat):
        cases += gen4.component_wrappings(c, i)
    # cids must be unique per differential call: one call per template
    by = {}
    for c in cases:
        by.setdefault(c.family, []).append(c)
    dbs = gen.dbs_core_quick()[-6:] if tier == "quick" else gen.dbs_core_quick()
    cfg = [diff.Config("interp-j1", "interp", 1)]
    for fam, cs in sorted(by.items()):
        if dl.expired():
            rep.capped("deadline before " + fam)
            continue
        diff.differential(rep, cs, dbs, cfg, fam, batch_size=100, deadline=dl)
        rep.sample({"template": fam, "cases": len(cs), "program": cs[len(cs) // 2].prog.extra[0][:400]}, cap=10)
    rep.set("rule", "every flat core program x 7 component templates x databases; the flat program's reference model is the expected content of "
            "the instantiated relations (c.p, d.p, o.in.p, both instances ...)")
    return rep.finish()


def replay(obj):
    return diff.replay_dl(obj)
