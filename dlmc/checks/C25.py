"""C25: B-tree sets under concurrent insertion — every schedule (preemption-bounded) of small concurrent insert
histories on the real btree_set / btree_multiset with 3-key nodes, from 8 base shapes, against a sorted-set model."""
from ..common import *
from .. import vs

PID = "C25"
BUILD_TARGETS = ()


def groups(sc):
    g = {}
    for i, d in sc:
        parts = d.split()
        g.setdefault(parts[1], []).append(i)     # 2x1 / 2x2 / 3x1
    return g


def run(rep, tier, dl, harnesses, light=()):
    for h in harnesses:
        exe = vs.build_harness(h)
        g = groups(vs.list_scenarios(exe))
        if tier == "quick":
            if h in light:
                vs.explore_all(rep, h, g["2x1"], bound=1, budget_per_scenario=20, deadline=dl)
                continue
            vs.explore_all(rep, h, g["2x1"], bound=2, budget_per_scenario=30, deadline=dl)
            vs.explore_all(rep, h, g["3x1"], bound=1, budget_per_scenario=20, deadline=dl)
            # 2 threads x 2 inserts: every 20th scenario of the enumeration at bound 1 (the full group is in the thorough tier)
            vs.explore_all(rep, h, g["2x2"][::20], bound=1, budget_per_scenario=20, deadline=dl)
        else:
            vs.explore_all(rep, h, g["2x1"], bound=3, budget_per_scenario=120, deadline=dl)
            vs.explore_all(rep, h, g["3x1"], bound=2, budget_per_scenario=60, deadline=dl)
            vs.explore_all(rep, h, g["2x2"] if h not in light else g["2x2"][::5], bound=2 if h not in light else 1, budget_per_scenario=30, deadline=dl)


def check(tier):
    rep = Report(PID, tier, "model_checking")
    dl = Deadline(540 if tier == "quick" else 3300)
    run(rep, tier, dl, ["c25_btree", "c25_btree_multi"], light=("c25_btree_multi",))
    rep.set("rule", "scenario = base tree (empty, one key, full root leaf, just split, full leaf next to a leaf with room, two full leaves, "
            "three levels asc/desc) x concurrent insert lists over a key alphabet derived from the base shape (below min, above max, gaps "
            "near front/middle/back, duplicates of a leaf key and of a separator) x with/without operation hints; every schedule with at most "
            "`bound` preemptions at atomic/volatile/conflicting accesses runs on the real tree; afterwards iteration, size, insert results, "
            "check(), contains/find/lower_bound/upper_bound on all keys and neighbours and getChunks(1..5) are compared with std::multiset")
    rep.assume("sequentially consistent executions; instrumented code compiled at -O1")
    return rep.finish()


def replay(obj):
    return vs.replay_vs(obj)
