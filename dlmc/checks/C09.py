"""C09: semi-naive evaluation is complete and non-redundant — observed on the REAL interpreter, for every recursive program of
the families and every database:
 (1) stage alignment and exit timing: for every relation of a recursive component the profile's per-iteration new-tuple counts
     must be exactly N_1, ..., N_m, 0 where N_k is the number of tuples the naive simultaneous fixpoint derives first at stage k
     (so nothing is found later than naive evaluation finds it, the loop runs no iteration too few and none too many);
 (2) every combination of body tuples that passes all joins, the delta-exclusion filters and the head-not-known filter of a
     recursive rule is logged by an observation functor appended to the rule: no combination may be logged twice (not by two
     versions, not in two iterations), every logged combination must be a satisfying instantiation over the final database,
     and the heads of the logged combinations must be exactly the tuples first derived inside the loop."""
import json, os, shutil
from ..common import *
from .. import families, gen, gen2, ref, run
from ..dl import *
from ..vals import Undefined
from .C12 import build_functors

PID = "C09"
_CTX = {}
FUNCTOR = ".functor mark(r:number, a:number, b:number, c:number, d:number):number stateful\n"


def recursive_rules(prog):
    comps, _ = ref.stratify(prog)
    where = {}
    for i, c in enumerate(comps):
        for n in c:
            where[n] = i
    out = []
    for idx, r in enumerate(prog.rules):
        if r.__class__ is not Rule or not r.body:
            continue
        hs = {where[h.rel] for h in r.heads}
        if any(a.rel in where and where[a.rel] in hs for a, pos, inagg in atoms_of_body(r.body) if pos and not inagg):
            out.append(idx)
    return out, comps


def marked(case):
    """copy of the program with the observation functor appended to every recursive rule; None if not applicable"""
    from .C19 import connected
    rr, comps = recursive_rules(case.prog)
    if not rr:
        return None
    if not connected(case):
        # a body part that shares no variable with the rest is moved into an internal nullary relation of the same
        # component by the AST transformers: the loop then legitimately needs one more stage than the source program
        return None
    Q = Program()
    Q.types, Q.typeinfo = list(case.prog.types), dict(case.prog.typeinfo)
    Q.extra = list(case.prog.extra)
    for n, r in case.prog.rels.items():
        Q.rels[n] = r
    info = {}
    for idx, r in enumerate(case.prog.rules):
        if idx in rr:
            vs = []
            for l in r.body:
                if l.__class__ is Atom:
                    for v in vars_of(l):
                        if v not in vs:
                            vs.append(v)
            if len(vs) > 4 or len(r.heads) != 1:
                return None
            rid = case.cid * 10 + idx
            # an anonymous argument hides part of the combination (two different tuples of the atom look alike in the log):
            # such rules are observed for satisfaction only, not for uniqueness (negative rule id in the info table)
            anon = any(s_.__class__ is Anon for l in r.body if l.__class__ is Atom for s_ in subterms(l))
            args = [Num(rid)] + [Var(v) for v in vs] + [Num(0)] * (4 - len(vs))
            if anon:
                vs = list(vs) + ["<anon>"]
            Q.rules.append(Rule(list(r.heads), list(r.body) + [Cmp("=", UFn("mark", args), Num(0))], r.plan))
            info[rid] = (idx, vs)
        else:
            Q.rules.append(r)
    return Q, info, comps


def naive_stages(prog, db):
    """relation -> list of sets: tuples first derived at naive stage 0, 1, 2, ... of its component"""
    trace = {}
    comps, _ = ref.stratify(prog)
    full = {n: set() for n in prog.rels}
    for n, ts in db.items():
        if n in full:
            full[n].update(ts)
    for f in prog.facts:
        full[f.rel].add(tuple(list(ref.evs(a, {}, full))[0] for a in f.args))
    for comp in comps:
        cs = set(comp)
        rules = [r for r in prog.rules if r.__class__ is Rule and any(h.rel in cs for h in r.heads)]
        if not rules:
            continue
        for n in comp:
            trace[n] = []
        for rounds in range(300):
            new = {n: set() for n in comp}
            for r in rules:
                for rel, tup in ref.derive(r, full):
                    if tup not in full[rel]:
                        new[rel].add(tup)
            if not any(new.values()):
                break
            for n in comp:
                trace[n].append(new[n])
                full[n] |= new[n]
        else:
            raise Undefined("no convergence")
    return trace, full


def _job(arg):
    bi, di = arg
    batch = _CTX["batches"][bi]
    db = _CTX["dbs"][di]
    wd = _CTX["wd"]
    fdir = _CTX["fdir"]
    res = {"evals": 0, "iters": 0, "combos": 0, "viol": []}
    out_dir = os.path.join(wd, "o_%d_%d" % (bi, di))
    os.makedirs(out_dir, exist_ok=True)
    log = os.path.join(out_dir, "mark.log")
    prof = os.path.join(out_dir, "prof.json")
    env = dict(os.environ)
    env["SOUFFLE_VERIF_LOG"] = log
    env["LD_LIBRARY_PATH"] = fdir + ":" + env.get("LD_LIBRARY_PATH", "")
    cmd = [SOUFFLE, "--no-preprocessor", "-w", "-j", "1", "-L" + fdir, "-lfunctors", "-p", prof, "-F", os.path.join(wd, "db%d" % di), "-D", out_dir, os.path.join(wd, "b%d.dl" % bi)]
    rc, so, se = sh(cmd, timeout=600, env=env)
    if rc != 0:
        res["viol"].append((batch[0][0].cid, "souffle failed rc=%s: %s" % (rc, se[-300:]), db))
        shutil.rmtree(out_dir, ignore_errors=True)
        return res
    try:
        pj = json.load(open(prof))["root"]["program"]["relation"]
    except Exception as e:
        res["viol"].append((batch[0][0].cid, "unreadable profile: %s" % e, db))
        shutil.rmtree(out_dir, ignore_errors=True)
        return res
    logged = {}
    if os.path.exists(log):
        for line in open(log):
            p = [int(x) for x in line.split()]
            logged.setdefault(p[0], []).append(tuple(p[1:]))
    for case, mq, info, comps in batch:
        try:
            trace, full = naive_stages(case.prog, db)
        except Undefined:
            continue
        res["evals"] += 1
        rr, _ = recursive_rules(case.prog)
        recrels = set()
        for idx in rr:
            for h in case.prog.rules[idx].heads:
                recrels.add(h.rel)
        # relations of recursive components
        for comp in comps:
            if not (set(comp) & recrels):
                continue
            for rel in comp:
                stages = trace.get(rel, [])
                want = [len(s) for s in stages[1:]] + [0]
                # all relations of the component run the same number of iterations
                m = max(len(trace.get(n, [])) for n in comp)
                want = [len(trace[rel][k]) if k < len(trace[rel]) else 0 for k in range(1, m)] + [0]
                it = pj.get(rel, {}).get("iteration")
                if it is None:
                    if m > 1 or True:
                        got = None
                else:
                    got = [it[k]["num-tuples"] for k in sorted(it, key=int)]
                res["iters"] += len(want)
                if got is not None and got != want:
                    res["viol"].append((case.cid, "relation %s: new tuples per loop iteration are %s, the naive fixpoint finds %s per stage (then stops)" % (rel, got, want), db))
        # observation log
        for rid, (idx, vs) in info.items():
            combos = logged.get(rid, [])
            res["combos"] += len(combos)
            seen = set()
            rule = case.prog.rules[idx]
            head = rule.heads[0]
            heads = set()
            check_unique = "<anon>" not in vs
            vs = [v for v in vs if v != "<anon>"]
            for cmb in combos:
                if check_unique and cmb in seen:
                    res["viol"].append((case.cid, "rule %s: body combination %s (variables %s) was considered more than once" % (show(rule), cmb[:len(vs)], vs), db))
                    break
                seen.add(cmb)
                env_ = {v: cmb[i] for i, v in enumerate(vs)}
                ok = False
                try:
                    for e in ref.solve(list(rule.body), dict(env_), full, set(env_) | set(vars_of(head))):
                        ok = True
                        hv = tuple(list(ref.evs(a, e, full))[0] for a in head.args)
                        heads.add(hv)
                        break
                except (ref.Ungrounded, Undefined):
                    ok = True
                if not ok:
                    res["viol"].append((case.cid, "rule %s: logged combination %s does not satisfy the rule body over the final database" % (show(rule), cmb[:len(vs)]), db))
                    break
    shutil.rmtree(out_dir, ignore_errors=True)
    return res


def check(tier):
    global _CTX
    from ..diff import edb_text
    rep = Report(PID, tier, "model_checking")
    dl = Deadline(480 if tier == "quick" else 3300)
    wd = fresh_dir(PID)
    fdir = build_functors()
    core = families.core_cases(2, terms=("x", "y"), consts=(), cmp_ops=("<",)) if tier == "quick" else families.core_cases(2)
    fams = [("core2", core), ("mutrec", gen2.family_mutrec(tier)), ("multirec", gen2.family_multirec(tier)), ("nullary", gen2.family_nullary(tier))]
    dbs = gen.dbs_core_quick()[-8:] if tier == "quick" else gen.dbs_core_quick()
    dbs = dbs + [{"a": ((0,), (3,)), "e": ((0, 1), (1, 2), (2, 3), (3, 4), (4, 2))}]
    for di, db in enumerate(dbs):
        for n in ("a", "e"):
            run.write_facts(os.path.join(wd, "db%d" % di), n, db.get(n, ()))
    batches = []
    nrec = 0
    for name, cs in fams:
        items = []
        for c in cs:
            m = marked(c)
            if m is None:
                continue
            items.append((c, m[0], m[1], m[2]))
        nrec += len(items)
        for ch in chunks(items, 60):
            batches.append(ch)
    for bi, ch in enumerate(batches):
        mp = run.merge_programs([q for _, q, _, _ in ch])
        with open(os.path.join(wd, "b%d.dl" % bi), "w") as f:
            f.write(FUNCTOR + print_program(mp))
    _CTX = {"batches": batches, "dbs": dbs, "wd": wd, "fdir": fdir}
    jobs = [(bi, di) for bi in range(len(batches)) for di in range(len(dbs))]
    nv = 0
    for res in pmap_unordered(_job, jobs):
        rep.add("evaluations", res["evals"])
        rep.add("traces_validated_against_impl", res["evals"])
        rep.add("states", res["iters"])
        rep.add("transitions", res["combos"])
        for cid, msg, db in res["viol"]:
            nv += 1
            if nv > 20:
                continue
            c, q, info, comps = [x for b in batches for x in b if x[0].cid == cid][0]
            want = {}
            try:
                trace, _ = naive_stages(c.prog, db)
                for comp in comps:
                    m = max([len(trace.get(n, [])) for n in comp] + [0])
                    if m:
                        for rel in comp:
                            want[rel] = [len(trace[rel][k]) if k < len(trace[rel]) else 0 for k in range(1, m)] + [0]
            except Undefined:
                pass
            rep.violation("%s: %s" % (c.desc, msg), {"kind": "seminaive", "program": FUNCTOR + print_program(q), "facts": edb_text(db), "why": msg,
                                                      "expected_new_tuples_per_iteration": want,
                                                      "unique_rule_ids": [rid for rid, (idx, vs) in info.items() if "<anon>" not in vs]})
        if dl.expired():
            rep.capped("deadline")
            break
    rep.set("recursive_programs", nrec)
    rep.sample({"families": [(n, len(c)) for n, c in fams], "databases": len(dbs), "example": FUNCTOR + print_program(batches[0][3][1])[-400:]})
    rep.set("states_means", "(relation, loop iteration) pairs compared with the naive stage counts")
    rep.set("transitions_means", "logged body combinations of recursive rules (each checked for uniqueness and satisfaction)")
    rep.set("explanation", "the 'model' is the naive simultaneous fixpoint T_P staged by the reference evaluator; the implementation trace is the real interpreter's "
            "profile (new tuples per relation per loop iteration) and the log of an observation functor placed behind all filters of every recursive rule")
    rep.assume("a combination that is (redundantly) re-considered in a LATER iteration is filtered by the head-not-known test before the observation point "
               "and is not seen; double consideration inside one iteration (two versions) is seen")
    shutil.rmtree(wd, ignore_errors=True)
    return rep.finish()


def replay(obj):
    """re-run the stored single program with the observation functor and a profile; violated iff an iteration count differs from the
    stored naive stages or a combination of a rule observed for uniqueness is logged twice"""
    wd = fresh_dir(PID + "-replay")
    fdir = build_functors()
    os.makedirs(os.path.join(wd, "f"))
    os.makedirs(os.path.join(wd, "o"))
    for r, lines in obj.get("facts", {}).items():
        with open(os.path.join(wd, "f", r + ".facts"), "w") as f:
            f.write("".join(l + "\n" for l in lines))
    with open(os.path.join(wd, "p.dl"), "w") as f:
        f.write(obj["program"])
    env = dict(os.environ)
    log, prof = os.path.join(wd, "mark.log"), os.path.join(wd, "prof.json")
    env["SOUFFLE_VERIF_LOG"] = log
    env["LD_LIBRARY_PATH"] = fdir + ":" + env.get("LD_LIBRARY_PATH", "")
    rc, so, se = sh([SOUFFLE, "--no-preprocessor", "-w", "-j", "1", "-L" + fdir, "-lfunctors", "-p", prof, "-F", os.path.join(wd, "f"), "-D", os.path.join(wd, "o"),
                     os.path.join(wd, "p.dl")], timeout=300, env=env)
    if rc != 0:
        return True, "rc=%s %s" % (rc, se[-300:])
    pj = json.load(open(prof))["root"]["program"]["relation"]
    out = []
    for rel, want in obj.get("expected_new_tuples_per_iteration", {}).items():
        it = pj.get(rel, {}).get("iteration")
        if it is not None:
            got = [it[k]["num-tuples"] for k in sorted(it, key=int)]
            if got != want:
                out.append("relation %s: new tuples per iteration %s, naive stages %s" % (rel, got, want))
    seen = set()
    uniq = set(obj.get("unique_rule_ids", []))
    if os.path.exists(log):
        for line in open(log):
            p_ = tuple(int(x) for x in line.split())
            if p_[0] in uniq and p_ in seen:
                out.append("combination %s logged twice" % (p_,))
            seen.add(p_)
    return bool(out), "; ".join(out[:5]) or "iteration counts and observation log agree with the naive stages"
