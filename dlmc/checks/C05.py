"""C05: magic-set transformation preserves results — programs x {--magic-transform=*, per-relation magic / no_magic qualifiers
in every combination, --magic-transform=<subset by role>}; outputs must equal the reference model of the untransformed program."""
import itertools
from ..common import *
from .. import diff, gen, gen2, families

PID = "C05"


def check(tier):
    rep = Report(PID, tier, "exploration")
    dl = Deadline(480 if tier == "quick" else 3300)
    star = [diff.Config("magic-all", "interp", 1, extra=("--magic-transform=*",))]
    plain_and_star = [diff.Config("default", "interp", 1)] + star
    # (0) chains of six unary strata with every sign vector (one relation needed under several differently negated contexts)
    nc = gen2.family_negchain(tier)
    diff.differential(rep, nc, gen2.dbs_negchain()[:2] if tier == "quick" else gen2.dbs_negchain(), star, "negchain", batch_size=60, deadline=dl)
    rep.sample({"family": "negchain", "cases": len(nc), "example": nc[777].desc, "config": "--magic-transform=*"}, cap=20)
    # (1) all families under --magic-transform=*
    for name, cases, dbs in families.compiled_slice("quick"):
        if dl.expired():
            rep.capped("deadline before " + name)
            continue
        d2 = dbs[-6:] if (tier == "quick" and len(dbs) > 6) else dbs
        diff.differential(rep, cases, d2, star, name, batch_size=100, deadline=dl)
        rep.sample({"family": name, "cases": len(cases), "config": "--magic-transform=*"}, cap=20)
    # (2) every assignment of {none, magic, no_magic} to the two IDB relations of the core family (qualifier driven subsets)
    specs = gen.enum_core(max_body=2, terms=("x", "y"), consts=(0,), cmp_ops=("<",), heads=("p", "q")) if tier != "quick" else \
        gen.enum_core(max_body=2, terms=("x", "y"), consts=(0,), cmp_ops=(), heads=("q",))
    quals = [(), ("magic",), ("no_magic",)]
    k = 0
    for qp, qq in itertools.product(quals, quals):
        if qp == () and qq == ():
            continue
        if dl.expired():
            rep.capped("deadline before qualifier assignment %s/%s" % (qp, qq))
            continue
        cs = [gen.make_core_case(i, s, qp, qq, family="core-magicqual") for i, s in enumerate(specs)]
        cs = [c for c in cs if c is not None]
        diff.differential(rep, cs, gen.dbs_core_quick()[-6:], plain_and_star, "qual-%d" % k, batch_size=150, deadline=dl)
        rep.sample({"family": "core p:%s q:%s" % (qp or "-", qq or "-"), "cases": len(cs)}, cap=20)
        k += 1
    # (3) subsets by role through the command line: only the p relations / only the q relations
    cs = [gen.make_core_case(i, s) for i, s in enumerate(specs)]
    cs = [c for c in cs if c is not None]
    for role in ("p", "q"):
        for ch_i, ch in enumerate(chunks(cs, 150)):
            names = ",".join("%s_%d" % (role, c.cid) for c in ch)
            cfg = [diff.Config("magic-" + role, "interp", 1, extra=("--magic-transform=" + names,))]
            diff.differential(rep, ch, gen.dbs_core_quick()[-6:], cfg, "subset-%s-%d" % (role, ch_i), batch_size=150, deadline=dl)
    rep.set("rule", "chains of 6 unary strata (every sign vector, optional second earlier relation) and all families under --magic-transform=*; the core family (constants in body atoms = bound arguments) under every assignment of "
            "{none, magic, no_magic} to its two IDB relations with and without --magic-transform=*, and under --magic-transform=<all p> / <all q>")
    return rep.finish()


def replay(obj):
    return diff.replay_dl(obj)
