"""Datalog AST used by the generators, the printer (to souffle syntax) and the reference evaluator.

Everything is a plain tuple-like object with structural equality so that programs can be
deduplicated and canonicalised.  The reference evaluator never parses Datalog text.
"""
import struct


class Node:
    __slots__ = ()
    _f = ()

    def key(self):
        return (self.__class__.__name__,) + tuple(_key(getattr(self, f)) for f in self._f)

    def __eq__(self, o):
        return isinstance(o, Node) and self.key() == o.key()

    def __hash__(self):
        return hash(self.key())

    def __repr__(self):
        return show(self)


def _key(x):
    if isinstance(x, Node):
        return x.key()
    if isinstance(x, (list, tuple)):
        return tuple(_key(y) for y in x)
    if isinstance(x, float):
        return ("f", struct.pack("f", x))
    return x


def mk(name, fields):
    fields = tuple(fields.split())

    def __init__(self, *a):
        assert len(a) == len(fields), (name, a)
        for f, v in zip(fields, a):
            if isinstance(v, list):
                v = tuple(v)
            object.__setattr__(self, f, v)
    return type(name, (Node,), {"__slots__": fields, "_f": fields, "__init__": __init__})


# ---- terms
Var = mk("Var", "name")
Anon = mk("Anon", "")
Num = mk("Num", "v")          # signed 32-bit constant
Uns = mk("Uns", "v")          # unsigned constant
Flt = mk("Flt", "v")          # float constant (python float already rounded to f32)
Sym = mk("Sym", "s")          # symbol constant (python str, bytes as latin-1 chars)
Fn = mk("Fn", "op args")      # intrinsic functor
Rec = mk("Rec", "args")       # record constructor
Nil = mk("Nil", "")
Adt = mk("Adt", "branch args")
Agg = mk("Agg", "op target body")   # target may be None (count)
Autoinc = mk("Autoinc", "")
As = mk("As", "expr ty")
UFn = mk("UFn", "name args")  # user-defined functor  @name(args)

# ---- literals
Atom = mk("Atom", "rel args")
Neg = mk("Neg", "atom")
Cmp = mk("Cmp", "op lhs rhs")       # = != < <= > >=
Disj = mk("Disj", "alts")           # alts: tuple of tuples of literals
Match = mk("Match", "pat s")        # match(pat, s)
Contains = mk("Contains", "sub s")  # contains(sub, s)
BoolLit = mk("BoolLit", "v")        # true / false

# ---- rules and declarations
Rule = mk("Rule", "heads body plan")            # plan: None or string such as "0:(2,1)"
Subsume = mk("Subsume", "dominated dominating body")   # dominated <= dominating :- body.


class Rel:
    def __init__(self, name, attrs, quals=(), choice=(), is_input=False, is_output=False, printsize=False,
                 io_in=None, io_out=None, limitsize=None, external=False):
        self.name = name
        self.attrs = tuple(attrs)   # ((name, type), ...)
        self.quals = tuple(quals)   # e.g. ('brie',), ('eqrel',), ('inline',)
        self.choice = tuple(choice)  # tuple of tuples of attribute names
        self.is_input, self.is_output, self.printsize = is_input, is_output, printsize
        self.io_in, self.io_out = io_in, io_out    # extra IO parameter strings
        self.limitsize = limitsize
        self.external = external    # declared by raw text in Program.extra (e.g. inside a component): not printed

    @property
    def arity(self):
        return len(self.attrs)

    def types(self):
        return [t for _, t in self.attrs]


class Program:
    def __init__(self):
        self.types = []      # raw declaration strings, e.g. ".type P = [a:number, b:number]"
        self.typeinfo = {}   # name -> ('record', [types]) | ('adt', [(branch,[types])...]) | ('alias', base)
        self.rels = {}       # name -> Rel (insertion ordered)
        self.rules = []      # Rule / Subsume
        self.facts = []      # Atom with constant args (program-text facts)
        self.extra = []      # raw text lines (functor decls, pragmas, ...)

    def rel(self, *a, **k):
        r = Rel(*a, **k)
        self.rels[r.name] = r
        return r

    def text(self):
        return print_program(self)


# ------------------------------------------------------------------ printer

_INFIX = {"+", "-", "*", "/", "%", "^", "band", "bor", "bxor", "bshl", "bshr", "bshru", "land", "lor", "lxor",
          "&", "|", "<<", ">>", ">>>", "&&", "||", "^^", "**"}
_PREFIX = {"neg": "-", "bnot": "bnot ", "lnot": "lnot ", "~": "~", "!": "!"}


def esc_sym(s):
    out = []
    for ch in s:
        if ch == '"':
            out.append('\\"')
        elif ch == "\\":
            out.append("\\\\")
        elif ch == "\n":
            out.append("\\n")
        elif ch == "\t":
            out.append("\\t")
        elif ch == "\r":
            out.append("\\r")
        else:
            out.append(ch)
    return '"' + "".join(out) + '"'


def fmt_float(v):
    """A decimal literal the scanner accepts ([0-9]+.[0-9]+) that rounds to the same f32."""
    import math
    if v != v or math.isinf(v):
        raise ValueError("no literal for special float")
    neg = v < 0 or (v == 0 and math.copysign(1, v) < 0)
    a = abs(v)
    s = None
    for prec in range(1, 60):
        cand = "%.*f" % (prec, a)
        if struct.unpack("f", struct.pack("f", float(cand)))[0] == a:
            s = cand
            break
    if s is None:
        s = "%.60f" % a
    if "." not in s:
        s += ".0"
    return ("-" if neg else "") + s


def show(t):
    c = t.__class__
    if c is Var:
        return t.name
    if c is Anon:
        return "_"
    if c is Num:
        return str(t.v)
    if c is Uns:
        return "%du" % t.v
    if c is Flt:
        return fmt_float(t.v)
    if c is Sym:
        return esc_sym(t.s)
    if c is Fn:
        def arg(a):
            # a negative constant is the unary minus applied to a literal: parenthesise it inside expressions
            s = show(a)
            return "(" + s + ")" if s.startswith("-") else s
        if t.op in _PREFIX and len(t.args) == 1:
            return "(" + _PREFIX[t.op] + arg(t.args[0]) + ")"
        if t.op in _INFIX and len(t.args) == 2:
            return "(" + arg(t.args[0]) + " " + t.op + " " + arg(t.args[1]) + ")"
        return t.op + "(" + ", ".join(show(a) for a in t.args) + ")"
    if c is UFn:
        return "@" + t.name + "(" + ", ".join(show(a) for a in t.args) + ")"
    if c is Rec:
        return "[" + ", ".join(show(a) for a in t.args) + "]"
    if c is Nil:
        return "nil"
    if c is Adt:
        return "$" + t.branch + "(" + ", ".join(show(a) for a in t.args) + ")"
    if c is Agg:
        tgt = "" if t.target is None else " " + show(t.target)
        return t.op + tgt + " : { " + show_body(t.body) + " }"
    if c is Autoinc:
        return "autoinc()"
    if c is As:
        return "as(" + show(t.expr) + ", " + t.ty + ")"
    if c is Atom:
        return t.rel + "(" + ", ".join(show(a) for a in t.args) + ")"
    if c is Neg:
        return "!" + show(t.atom)
    if c is Cmp:
        return show(t.lhs) + " " + t.op + " " + show(t.rhs)
    if c is Match:
        return "match(" + show(t.pat) + ", " + show(t.s) + ")"
    if c is Contains:
        return "contains(" + show(t.sub) + ", " + show(t.s) + ")"
    if c is BoolLit:
        return "true" if t.v else "false"
    if c is Disj:
        return "( " + " ; ".join(show_body(a) for a in t.alts) + " )"
    if c is Rule:
        h = ", ".join(show(a) for a in t.heads)
        s = h + (" :- " + show_body(t.body) if t.body else "") + "."
        if t.plan:
            s += "\n.plan " + t.plan
        return s
    if c is Subsume:
        return show(t.dominated) + " <= " + show(t.dominating) + " :- " + show_body(t.body) + "."
    raise TypeError(c)


def show_body(lits):
    return ", ".join(show(l) for l in lits)


def print_decl(r):
    s = ".decl " + r.name + "(" + ", ".join("%s:%s" % a for a in r.attrs) + ")"
    if r.quals:
        s += " " + " ".join(r.quals)
    if r.choice:
        s += " choice-domain " + ", ".join(k[0] if len(k) == 1 else "(" + ", ".join(k) + ")" for k in r.choice)
    return s


def print_program(p):
    out = []
    out += p.extra
    out += p.types
    for r in p.rels.values():
        if r.external:
            continue
        out.append(print_decl(r))
        if r.is_input:
            out.append(".input " + r.name + (("(" + r.io_in + ")") if r.io_in else ""))
        if r.is_output:
            out.append(".output " + r.name + (("(" + r.io_out + ")") if r.io_out else ""))
        if r.printsize:
            out.append(".printsize " + r.name)
        if r.limitsize is not None:
            out.append(".limitsize " + r.name + "(n=%d)" % r.limitsize)
    for f in p.facts:
        out.append(show(f) + ".")
    for r in p.rules:
        out.append(show(r))
    return "\n".join(out) + "\n"


# ------------------------------------------------------------------ traversal helpers

def subterms(t):
    """All nodes below t (pre-order), not descending into aggregate bodies."""
    yield t
    c = t.__class__
    if c in (Fn, Rec, Adt, UFn):
        for a in t.args:
            yield from subterms(a)
    elif c is As:
        yield from subterms(t.expr)
    elif c is Atom:
        for a in t.args:
            yield from subterms(a)
    elif c is Neg:
        yield from subterms(t.atom)
    elif c is Cmp:
        yield from subterms(t.lhs)
        yield from subterms(t.rhs)
    elif c is Match:
        yield from subterms(t.pat)
        yield from subterms(t.s)
    elif c is Contains:
        yield from subterms(t.sub)
        yield from subterms(t.s)
    # aggregates: neither target nor body are descended into (they live in the aggregate's own scope)


def vars_of(t, into_aggs=False):
    out = []
    for s in subterms(t):
        if s.__class__ is Var and s.name not in out:
            out.append(s.name)
        elif into_aggs and s.__class__ is Agg:
            for l in list(s.body) + ([s.target] if s.target is not None else []):
                for v in vars_of(l, True):
                    if v not in out:
                        out.append(v)
    return out


def rename(t, m):
    """Rename variables / relations. m: dict 'var:NAME'->new, 'rel:NAME'->new."""
    c = t.__class__
    if c is Var:
        return Var(m.get("var:" + t.name, t.name))
    if c in (Anon, Num, Uns, Flt, Sym, Nil, Autoinc, BoolLit):
        return t
    if c is Fn:
        return Fn(t.op, [rename(a, m) for a in t.args])
    if c is UFn:
        return UFn(t.name, [rename(a, m) for a in t.args])
    if c is Rec:
        return Rec([rename(a, m) for a in t.args])
    if c is Adt:
        return Adt(t.branch, [rename(a, m) for a in t.args])
    if c is Agg:
        return Agg(t.op, None if t.target is None else rename(t.target, m), [rename(l, m) for l in t.body])
    if c is As:
        return As(rename(t.expr, m), t.ty)
    if c is Atom:
        return Atom(m.get("rel:" + t.rel, t.rel), [rename(a, m) for a in t.args])
    if c is Neg:
        return Neg(rename(t.atom, m))
    if c is Cmp:
        return Cmp(t.op, rename(t.lhs, m), rename(t.rhs, m))
    if c is Match:
        return Match(rename(t.pat, m), rename(t.s, m))
    if c is Contains:
        return Contains(rename(t.sub, m), rename(t.s, m))
    if c is Disj:
        return Disj([[rename(l, m) for l in a] for a in t.alts])
    if c is Rule:
        return Rule([rename(h, m) for h in t.heads], [rename(l, m) for l in t.body], t.plan)
    if c is Subsume:
        return Subsume(rename(t.dominated, m), rename(t.dominating, m), [rename(l, m) for l in t.body])
    raise TypeError(c)


def atoms_of_body(body, positive=None):
    """(atom, is_positive, inside_aggregate) for every atom occurring in a body."""
    for l in body:
        c = l.__class__
        if c is Atom:
            yield l, True, False
        elif c is Neg:
            yield l.atom, False, False
        elif c is Disj:
            for a in l.alts:
                yield from atoms_of_body(a)
        for s in subterms(l):
            if s.__class__ is Agg:
                for a, pos, _ in atoms_of_body(s.body):
                    yield a, pos, True
