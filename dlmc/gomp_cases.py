"""Driver programs for the schedule dimension of C03 / C10 / C22 (generated code under vsched + OpenMP shim)."""
from .dl import *
from . import gomp, vs, gen4
from .common import *

X, Y, Z = Var("x"), Var("y"), Var("z")


def _ae(P):
    P.rel("a", [("x", "number")], is_input=True)
    P.rel("e", [("x", "number"), ("y", "number")], is_input=True)


DB1 = {"a": ((1,), (2,), (3,), (5,)), "e": ((1, 2), (2, 3), (3, 4), (4, 5), (5, 1), (2, 5))}
DB2 = {"a": ((2,), (4,), (6,), (7,), (8,)), "e": ((1, 2), (1, 3), (2, 4), (3, 4), (4, 6), (6, 7), (7, 7))}
# a chain of 8 edges and no a-facts: every chunk of e yields several derivations (needed to see lost updates)
DB3 = {"a": (), "e": tuple((i, i + 1) for i in range(1, 9))}


def scen(tier):
    return [("db1", DB1), ("db3", DB3)] if tier == "quick" else [("db1", DB1), ("db2", DB2), ("db3", DB3)]


def c03_programs():
    out = []
    P = Program(); _ae(P)
    P.rel("p", [("x", "number"), ("y", "number")], is_output=True)
    P.rules += [Rule([Atom("p", [X, Y])], [Atom("e", [X, Y])], None), Rule([Atom("p", [X, Z])], [Atom("p", [X, Y]), Atom("e", [Y, Z])], None)]
    out.append(("tc", P))
    P = Program(); _ae(P)
    P.rel("p", [("x", "number"), ("y", "number")])
    P.rel("q", [("x", "number")], is_output=True)
    P.rules += [Rule([Atom("p", [X, Y])], [Atom("e", [X, Y]), Atom("a", [X])], None), Rule([Atom("q", [X])], [Atom("p", [X, Anon()]), Neg(Atom("e", [X, X]))], None)]
    out.append(("neg-index", P))
    P = Program(); _ae(P)
    P.rel("r", [("x", "number"), ("c", "number")], is_output=True)
    P.rules += [Rule([Atom("r", [X, Var("c")])], [Atom("a", [X]), Cmp("=", Var("c"), Agg("count", None, [Atom("e", [X, Anon()])]))], None)]
    out.append(("aggregate", P))
    # an aggregate as the outermost operation of a rule is evaluated as a parallel reduction over the chunks of the relation
    P = Program(); _ae(P)
    P.rel("r", [("c", "float")], is_output=True)
    P.rules += [Rule([Atom("r", [Var("c")])], [Cmp("=", Var("c"), Agg("mean", Fn("to_float", [Y]), [Atom("e", [Anon(), Y])]))], None)]
    out.append(("outer-mean", P))
    P = Program(); _ae(P)
    P.rel("s", [("x", "number"), ("y", "number")], quals=("brie",), is_output=True)
    P.rules += [Rule([Atom("s", [X, Z])], [Atom("e", [X, Y]), Atom("e", [Y, Z])], None)]
    out.append(("brie-join", P))
    P = Program(); _ae(P)
    P.rel("q", [("x", "number"), ("y", "number")], quals=("eqrel",), is_output=True)
    P.rules += [Rule([Atom("q", [X, Y])], [Atom("e", [X, Y]), Atom("a", [X])], None)]
    out.append(("eqrel-insert", P))
    P = Program(); _ae(P)
    P.rel("m", [("x", "number"), ("y", "number")], is_output=True)
    P.rules += [Rule([Atom("m", [X, Y])], [Atom("e", [X, Y])], None), Rule([Atom("m", [Y, X])], [Atom("m", [X, Y]), Atom("a", [Y])], None),
                Rule([Atom("m", [X, Z])], [Atom("m", [X, Y]), Atom("m", [Y, Z]), Cmp("<", X, Z)], None)]
    out.append(("nonlinear", P))
    for op in ("sum", "count", "min", "max"):
        P = Program(); _ae(P)
        P.rel("r", [("c", "number")], is_output=True)
        P.rules += [Rule([Atom("r", [Var("c")])], [Cmp("=", Var("c"), Agg(op, None if op == "count" else Y, [Atom("e", [Anon(), Y])]))], None)]
        out.append(("outer-" + op, P))
    return out


def run_gomp(rep, tier, deadline, which):
    """which: 'C03' | 'C10' | 'C22'"""
    jobs = []
    if which == "C03":
        for name, P in c03_programs():
            jobs.append(("c03-" + name, P, scen(tier), "equal", None))
    elif which == "C10":
        for c in gen4.family_choice(tier):
            if c.tags[2].startswith("recursive"):
                continue      # the shim's oracle needs U = result without the constraint (non-recursive programs)
            jobs.append(("c10-" + c.tags[2], c.prog, scen(tier), ("choice", c.tags[1]), {"ref_prog": c.ref_prog}))
    else:
        for c in gen4.family_autoinc(tier):
            if c.tags[2] in ("join",):
                continue
            jobs.append(("c22-" + c.tags[2], c.prog, scen(tier), ("autoinc", c.tags[1]), {"ref_prog": c.ref_prog}))
    if tier == "quick":
        jobs = jobs[:4]
    exes = pmap(_build, jobs, jobs=min(6, len(jobs)))
    for (name, P, scn, kind, extra), exe in zip(jobs, exes):
        if isinstance(exe, str) and exe.startswith("ERROR"):
            rep.error(exe)
            continue
        bound = 1 if tier == "quick" else 2
        vs.explore_all(rep, name, list(range(len(scn))), bound=bound, budget_per_scenario=60 if tier == "quick" else 300, deadline=deadline, exe=exe,
                       extra_replay={"gomp": name})
        rep.cov.setdefault("generated_programs_under_scheduler", []).append(name)


def _build(job):
    name, P, scen, kind, extra = job
    try:
        return gomp.build(name.replace("/", "_"), P, scen, kind, 2, extra)
    except CheckError as e:
        return "ERROR " + str(e)
