"""Shared plumbing: paths, rebuilding /repo, evidence files, known findings, parallel map, deadlines."""
import fcntl, json, os, subprocess, sys, time, shutil, hashlib, itertools
from concurrent.futures import ProcessPoolExecutor, as_completed

VERIF = os.path.dirname(os.path.dirname(os.path.abspath(__file__)))
REPO = os.environ.get("VERIF_REPO", "/repo")
BUILD = os.path.join(REPO, "_build")
SOUFFLE = os.path.join(BUILD, "src", "souffle")
SOUFFLEPROF = os.path.join(BUILD, "src", "souffleprof")
VBUILD = os.path.join(VERIF, "build")
WORK = os.path.join(VERIF, "work")
REPLAYS = os.path.join(VERIF, "replays")
EVIDENCE = os.path.join(VERIF, "evidence")
NCPU = int(os.environ.get("VERIF_JOBS", os.cpu_count() or 4))


class CheckError(Exception):
    """The machinery failed (build error, nondeterminism, ...): exit 2, never a VIOLATION."""


def seed():
    try:
        return int(os.environ.get("VERIF_SEED", "0"))
    except ValueError:
        return 0


def ensure_dirs():
    for d in (VBUILD, WORK, REPLAYS, EVIDENCE):
        os.makedirs(d, exist_ok=True)


class Lock:
    def __init__(self, name="lock"):
        ensure_dirs()
        self.path = os.path.join(VBUILD, "." + name)

    def __enter__(self):
        self.f = open(self.path, "w")
        fcntl.flock(self.f, fcntl.LOCK_EX)
        return self

    def __exit__(self, *a):
        fcntl.flock(self.f, fcntl.LOCK_UN)
        self.f.close()


def vbuild(targets=("souffle", "souffleprof")):
    """Rebuild the requested targets of /repo/_build from the current working tree."""
    ensure_dirs()
    with Lock("build"):
        if not os.path.exists(os.path.join(BUILD, "build.ninja")):
            r = subprocess.run(["cmake", "-G", "Ninja", "-S", REPO, "-B", BUILD, "-DCMAKE_BUILD_TYPE=RelWithDebInfo"],
                               stdout=subprocess.PIPE, stderr=subprocess.STDOUT, text=True)
            if r.returncode != 0:
                raise CheckError("cmake configure failed:\n" + r.stdout[-3000:])
        r = subprocess.run(["cmake", "--build", BUILD, "--target", *targets, "--", "-j", str(NCPU)],
                           stdout=subprocess.PIPE, stderr=subprocess.STDOUT, text=True)
        if r.returncode != 0:
            raise CheckError("build of /repo failed:\n" + r.stdout[-4000:])
    return True


def fresh_dir(*parts):
    d = os.path.join(WORK, *parts)
    shutil.rmtree(d, ignore_errors=True)
    os.makedirs(d, exist_ok=True)
    return d


def sh(cmd, cwd=None, timeout=None, env=None, stdin=None):
    """Run a command, capture output; returns (rc, stdout, stderr). rc<0: signal; rc=None: timeout."""
    try:
        r = subprocess.run(cmd, cwd=cwd, timeout=timeout, env=env, input=stdin,
                           stdout=subprocess.PIPE, stderr=subprocess.PIPE)
        return r.returncode, r.stdout.decode("utf-8", "replace"), r.stderr.decode("utf-8", "replace")
    except subprocess.TimeoutExpired as e:
        return None, (e.stdout or b"").decode("utf-8", "replace"), (e.stderr or b"").decode("utf-8", "replace")


def pmap(fn, items, jobs=None, chunksize=1):
    """Ordered parallel map over processes (fn must be a top-level function)."""
    items = list(items)
    jobs = jobs or NCPU
    if jobs <= 1 or len(items) <= 1:
        return [fn(x) for x in items]
    with ProcessPoolExecutor(max_workers=jobs) as ex:
        return list(ex.map(fn, items, chunksize=chunksize))


def pmap_unordered(fn, items, jobs=None):
    items = list(items)
    jobs = jobs or NCPU
    if jobs <= 1 or len(items) <= 1:
        for x in items:
            yield fn(x)
        return
    ex = ProcessPoolExecutor(max_workers=jobs)
    try:
        futs = [ex.submit(fn, x) for x in items]
        for f in as_completed(futs):
            yield f.result()
    finally:
        # a consumer that stops early (deadline) must not wait for the queued work
        ex.shutdown(wait=False, cancel_futures=True)


class Deadline:
    def __init__(self, seconds):
        self.t0 = time.time()
        # VERIF_DEADLINE_SCALE < 1 is for smoke-testing a tier's code paths only (the evidence then reports the caps that were hit)
        self.limit = seconds * float(os.environ.get("VERIF_DEADLINE_SCALE", "1"))

    def left(self):
        return self.limit - (time.time() - self.t0)

    def expired(self):
        return self.left() <= 0

    def elapsed(self):
        return time.time() - self.t0


# ------------------------------------------------------------------ known findings

def load_findings(pid):
    p = os.path.join(VERIF, "known_findings.json")
    if not os.path.exists(p):
        return []
    with open(p) as f:
        d = json.load(f)
    return [e for e in d.get("findings", []) if e.get("property") == pid and e.get("status") == "open"]


# ------------------------------------------------------------------ evidence + verdict

class Report:
    """Collects coverage and violations for one check run and writes the evidence file."""

    def __init__(self, pid, tier, level):
        self.pid, self.tier, self.level = pid, tier, level
        self.t0 = time.time()
        self.cov = {"samples": [], "exhaustive": True}
        self.assumptions = []
        self.violations = []     # (description, replay path)
        self.known = []          # strings
        self.errors = []
        self._nreplay = 0
        self._known_seen = set()

    def add(self, key, n=1):
        self.cov[key] = self.cov.get(key, 0) + n

    def set(self, key, v):
        self.cov[key] = v

    def sample(self, s, cap=6):
        if len(self.cov["samples"]) < cap:
            self.cov["samples"].append(s)

    def capped(self, why):
        self.cov["exhaustive"] = False
        self.cov.setdefault("caps_hit", []).append(why)

    def assume(self, s):
        if s not in self.assumptions:
            self.assumptions.append(s)

    def replay_path(self, suffix="json"):
        ensure_dirs()
        self._nreplay += 1
        return os.path.join(REPLAYS, "%s-%s-%d.%s" % (self.pid, self.tier, self._nreplay, suffix))

    def violation(self, desc, replay_obj):
        """Record a violation with a replay artefact (a dict written as JSON)."""
        path = self.replay_path()
        replay_obj = dict(replay_obj)
        replay_obj.setdefault("property", self.pid)
        replay_obj["description"] = desc
        with open(path, "w") as f:
            json.dump(replay_obj, f, indent=1, default=str)
        self.violations.append((desc, path))
        return path

    def known_finding(self, entry, what):
        key = entry.get("id", entry.get("title"))
        if key not in self._known_seen:
            self._known_seen.add(key)
            self.known.append("%s (%s)" % (entry.get("title", key), what))

    def error(self, msg):
        self.errors.append(msg)

    def finish(self):
        ensure_dirs()
        wall = time.time() - self.t0
        cov = self.cov
        if self.level in ("exploration", "fault_enumeration"):
            cov.setdefault("evaluations", 0)
            cov.setdefault("distinct_nontrivial", 0)
            cov.setdefault("rule", "")
        ev = {"property_id": self.pid, "tier": self.tier, "seed": seed(), "level": self.level,
              "coverage": cov, "assumptions": self.assumptions, "wall_s": round(wall, 2),
              "violations": len(self.violations)}
        if self.known:
            ev["known_findings_reported"] = self.known
        if self.errors:
            ev["check_errors"] = self.errors[:20]
        with open(os.path.join(EVIDENCE, self.pid + ".json"), "w") as f:
            json.dump(ev, f, indent=1, default=str)
        for k in self.known:
            print("KNOWN-FINDING: property=%s %s" % (self.pid, k))
        for desc, path in self.violations[:20]:
            print("VIOLATION property=%s replay=%s" % (self.pid, path))
            print("  " + desc[:600])
        summ = {k: v for k, v in cov.items() if k != "samples" and not isinstance(v, (list, dict))}
        print("[%s %s] %s wall=%.1fs violations=%d errors=%d" % (self.pid, self.tier, summ, wall, len(self.violations), len(self.errors)))
        if self.violations:
            return 1
        if self.errors:
            for e in self.errors[:10]:
                print("CHECK-ERROR: " + e[:2000], file=sys.stderr)
            return 2
        return 0


def stable_hash(s):
    return hashlib.sha1(s.encode()).hexdigest()[:12]


def chunks(lst, n):
    for i in range(0, len(lst), n):
        yield lst[i:i + n]
