"""Families for the dedicated constructs: limitsize (C23), choice-domain (C10), subsumption (C11), autoinc (C22),
eqrel / representations (C08), components (C16), defect injection (C13)."""
import itertools, copy
from .dl import *
from .vals import U, F32
from .gen import Case, grounded, core_schema, make_core_case, dbs_core_quick
from . import ref, gen2

X, Y, Z, W = Var("x"), Var("y"), Var("z"), Var("w")


def _ae(P):
    P.rel("a", [("x", "number")], is_input=True)
    P.rel("e", [("x", "number"), ("y", "number")], is_input=True)


# ------------------------------------------------------------------ C23 limitsize

def family_limit(tier, start=0, maxk=12):
    """recursive shapes x every limit value 1..maxk (the check compares with the unlimited reference result)"""
    cases = []
    cid = start
    shapes = [
        ("tc-right", [Rule([Atom("P", [X, Y])], [Atom("e", [X, Y])], None), Rule([Atom("P", [X, Y])], [Atom("P", [X, Z]), Atom("e", [Z, Y])], None)]),
        ("tc-left", [Rule([Atom("P", [X, Y])], [Atom("e", [X, Y])], None), Rule([Atom("P", [X, Y])], [Atom("e", [X, Z]), Atom("P", [Z, Y])], None)]),
        ("tc-nonlinear", [Rule([Atom("P", [X, Y])], [Atom("e", [X, Y])], None), Rule([Atom("P", [X, Y])], [Atom("P", [X, Z]), Atom("P", [Z, Y])], None)]),
        ("sym", [Rule([Atom("P", [X, Y])], [Atom("e", [X, Y])], None), Rule([Atom("P", [Y, X])], [Atom("P", [X, Y])], None)]),
        ("arith", [Rule([Atom("P", [X, Num(0)])], [Atom("a", [X])], None), Rule([Atom("P", [X, Fn("+", [Y, Num(1)])])], [Atom("P", [X, Y]), Cmp("<", Y, Num(6))], None)]),
        ("neg", [Rule([Atom("P", [X, Y])], [Atom("e", [X, Y])], None), Rule([Atom("P", [X, Y])], [Atom("P", [X, Z]), Atom("e", [Z, Y]), Neg(Atom("a", [Y]))], None)]),
    ]
    for name, rules in shapes:
        for k in range(1, maxk + 1):
            for downstream in (False, True):
                P = Program()
                _ae(P)
                p = "p_%d" % cid
                P.rel(p, [("x", "number"), ("y", "number")], is_output=True, limitsize=k)
                for r in rules:
                    P.rules.append(rename(r, {"rel:P": p}))
                if downstream:
                    # a later stratum reads the truncated relation: it must see exactly what is output
                    d = "d_%d" % cid
                    P.rel(d, [("x", "number"), ("y", "number")], is_output=True)
                    P.rules.append(Rule([Atom(d, [X, Y])], [Atom(p, [X, Y])], None))
                cases.append(Case(cid, "limit", P, "%s limitsize=%d%s" % (name, k, " +downstream" if downstream else ""), tags=("limit", k)))
                cid += 1
    return cases


# ------------------------------------------------------------------ C13 defect injection

def inject_defects(case):
    """All single defect injections into the rule under test (last rule) of a well-formed core case.
    Returns list of (class, description, Program)."""
    out = []
    P = case.prog
    rut = P.rules[-1]
    if rut.__class__ is not Rule or len(rut.heads) != 1:
        return out
    head = rut.heads[0]
    body = list(rut.body)
    hrel = head.rel

    def variant(new_rule, extra_rules=()):
        Q = Program()
        Q.types = list(P.types)
        Q.typeinfo = dict(P.typeinfo)
        for n, r in P.rels.items():
            Q.rels[n] = r
        Q.rules = list(P.rules[:-1]) + [new_rule] + list(extra_rules)
        Q.extra = list(P.extra)
        return Q

    used = set(vars_of(head, True))
    for l in body:
        used.update(vars_of(l, True))
    fresh = "u" if "u" not in used else "uu"
    U_ = Var(fresh)
    # (b) ungrounded variables
    for i in range(len(head.args)):
        args = list(head.args)
        args[i] = U_
        out.append(("ungrounded-head", "head argument %d replaced by an unbound variable" % i, variant(Rule([Atom(hrel, args)], body, None))))
    out.append(("ungrounded-negation", "negated atom with an unbound variable", variant(Rule([head], body + [Neg(Atom("a", [U_]))], None))))
    out.append(("ungrounded-constraint", "constraint on an unbound variable", variant(Rule([head], body + [Cmp("<", U_, Num(3))], None))))
    out.append(("ungrounded-functor", "unbound variable under a functor in the head", variant(Rule([Atom(hrel, [Fn("+", [U_, Num(1)])] + list(head.args[1:]))], body, None))))
    # (c) type mismatches
    for i, l in enumerate(body):
        if l.__class__ is Atom:
            for j in range(len(l.args)):
                args = list(l.args)
                args[j] = Sym("s")
                nb = body[:i] + [Atom(l.rel, args)] + body[i + 1:]
                if grounded([head], nb):
                    out.append(("type-symbol-for-number", "symbol constant in number attribute %d of %s" % (j, l.rel), variant(Rule([head], nb, None))))
    hv = vars_of(head)
    if hv:
        out.append(("type-compare", "number variable compared with a symbol", variant(Rule([head], body + [Cmp("=", Var(hv[0]), Sym("s"))], None))))
        out.append(("type-record", "number variable unified with a record", variant(Rule([head], body + [Cmp("=", Var(hv[0]), Rec([Num(1), Num(2)]))], None))))
    args = list(head.args)
    args[0] = Sym("s")
    out.append(("type-head", "symbol constant in number attribute of the head", variant(Rule([Atom(hrel, args)], body, None))))
    # (a) cycles through negation / aggregation
    bound = []
    for l in body:
        if l.__class__ is Atom:
            for v in vars_of(l):
                if v not in bound:
                    bound.append(v)
    arity = len(head.args)
    if bound:
        nargs = [Var(bound[k % len(bound)]) for k in range(arity)]
        out.append(("negation-cycle-self", "rule negates its own head relation", variant(Rule([head], body + [Neg(Atom(hrel, nargs))], None))))
        out.append(("aggregate-cycle-self", "rule aggregates over its own head relation",
                    variant(Rule([head], body + [Cmp("=", Num(0), Agg("count", None, [Atom(hrel, [Anon()] * arity)]))], None))))
        # cycle through a second (and third) relation
        other = [n for n in P.rels if n != hrel and not P.rels[n].is_input and len(P.rels[n].attrs) == 1]
        if other:
            o = other[0]
            r2 = Rule([Atom(o, [Var(bound[0])])], body + [Atom(hrel, nargs)], None)
            out.append(("negation-cycle-2", "negation closes a cycle through a second relation",
                        variant(Rule([head], body + [Neg(Atom(o, [Var(bound[0])]))], None), [r2])))
    return out


# ------------------------------------------------------------------ C16 components

def component_wrappings(flat, cid):
    """All component wrappings (<= 3 levels) of a flat core case. Returns list of Case whose reference program is the flat one."""
    P = flat.prog
    idb = [r for r in P.rels.values() if not r.is_input]
    edb = [r for r in P.rels.values() if r.is_input]
    decls = lambda extra_qual="": "\n".join(print_decl(r) + (" " + extra_qual if extra_qual and r.name.startswith("p") else "") + ("\n.output " + r.name if r.is_output else "") for r in idb)
    rules = [show(r) for r in P.rules]
    base_rules, rut = rules[:-1], rules[-1]
    out = []
    s = str(cid)

    def mk(kind, text, prefixes):
        Q = Program()
        for r in edb:
            Q.rels[r.name] = r
        Q.extra = [text]
        m = {}
        for pre in prefixes:
            for r in idb:
                if r.is_output:
                    n = pre + "." + r.name
                    Q.rel(n, r.attrs, is_output=True, external=True)
                    m[n] = r.name
        out.append(Case(cid, "comp-" + kind, Q, kind + ": " + flat.desc, ref_prog=P, ref_map=m))

    body = decls() + "\n" + "\n".join(rules)
    mk("single", ".comp C%s {\n%s\n}\n.init c%s = C%s" % (s, body, s, s), ["c" + s])
    mk("derived", ".comp B%s {\n%s\n%s\n}\n.comp D%s : B%s {\n%s\n}\n.init d%s = D%s" % (s, decls(), "\n".join(base_rules), s, s, rut, s, s), ["d" + s])
    tdecls = "\n".join(".decl %s(%s)" % (r.name, ", ".join("%s:T" % a for a, _ in r.attrs)) + ("\n.output " + r.name if r.is_output else "") for r in idb)
    mk("typeparam", ".comp C%s<T> {\n%s\n%s\n}\n.init c%s = C%s<number>" % (s, tdecls, "\n".join(rules), s, s), ["c" + s])
    mk("two-instances", ".comp C%s {\n%s\n}\n.init c%sa = C%s\n.init c%sb = C%s" % (s, body, s, s, s, s), ["c%sa" % s, "c%sb" % s])
    mk("nested", ".comp O%s {\n.comp I%s {\n%s\n}\n.init in%s = I%s\n}\n.init o%s = O%s" % (s, s, body, s, s, s, s), ["o%s.in%s" % (s, s)])
    mk("derived-of-derived", ".comp B%s {\n%s\n}\n.comp M%s : B%s {\n%s\n}\n.comp D%s : M%s {\n%s\n}\n.init d%s = D%s" %
       (s, decls(), s, s, "\n".join(base_rules), s, s, rut, s, s), ["d" + s])
    # override: the base component holds a WRONG overridable rule for the head relation of the rule under test
    hrel = P.rules[-1].heads[0].rel
    hr = P.rels[hrel]
    wrong = "%s(%s) :- a(x), x != x." % (hrel, ", ".join(["x"] * len(hr.attrs)))
    mine = [r for r in P.rules if any(h.rel == hrel for h in r.heads)]
    others = [r for r in P.rules if r not in mine]
    odecl = "\n".join(print_decl(r) + (" overridable" if r.name == hrel else "") + ("\n.output " + r.name if r.is_output else "") for r in idb)
    mk("override", ".comp B%s {\n%s\n%s\n%s(%s) :- e(x, _), a(x).\n%s\n}\n.comp D%s : B%s {\n.override %s\n%s\n}\n.init d%s = D%s" %
       (s, odecl, "\n".join(show(r) for r in others), hrel, ", ".join(["x"] * len(hr.attrs)), wrong, s, s, hrel, "\n".join(show(r) for r in mine), s, s), ["d" + s])
    return out


# ------------------------------------------------------------------ C15 print-specific families

def family_printforms(tier, start=0):
    """expression trees over every operator (precedence / associativity / unary minus), escaped string constants, and one
    program per declaration form (qualifiers, plans, choice-domain, subsumption, records, ADTs, components, directives)."""
    cases = []
    cid = start
    ops2 = ["+", "-", "*", "/", "%", "^", "band", "bor", "bxor", "bshl", "bshr", "bshru", "land", "lor", "lxor"]
    ops1 = ["neg", "bnot", "lnot"]
    leaves = [X, Num(2), Num(-3)]
    depth1 = [Fn(o, [a, b]) for o in ops2 for a, b in ((X, Num(2)), (Num(-3), X))] + [Fn(o, [X]) for o in ops1]
    exprs = list(depth1)
    inner = [Fn("+", [X, Num(1)]), Fn("-", [X, Num(1)]), Fn("*", [X, Num(2)]), Fn("neg", [X]), Fn("^", [X, Num(2)])]
    for o in ops2:
        for i in inner:
            exprs.append(Fn(o, [i, Num(2)]))
            exprs.append(Fn(o, [Num(7), i]))
    for o in ops1:
        for i in inner:
            exprs.append(Fn(o, [i]))
    exprs += [Fn("max", [X, Num(2), Fn("+", [X, Num(1)])]), Fn("min", [Fn("neg", [X]), Num(2)]), Fn("-", [Fn("-", [X, Num(1)]), Num(1)]),
              Fn("-", [X, Fn("-", [Num(1), Num(1)])]), Fn("/", [Fn("/", [Num(64), X]), Num(2)]), Fn("/", [Num(64), Fn("/", [X, Num(2)])]),
              Fn("^", [Fn("^", [Num(2), X]), Num(2)]), Fn("^", [Num(2), Fn("^", [X, Num(2)])])]
    for ex in exprs:
        P = Program()
        P.rel("n", [("x", "number")], is_input=True)
        r = "r_%d" % cid
        P.rel(r, [("x", "number"), ("y", "number")], is_output=True)
        P.rules.append(Rule([Atom(r, [X, ex])], [Atom("n", [X])], None))
        cases.append(Case(cid, "print-expr", P, show(P.rules[-1]), edb={"n": ((1,), (2,), (3,), (4,))}))
        cid += 1
    import itertools as it
    chars = ["a", '"', "\\", "\n", "\t", " "]
    n = 2 if tier == "quick" else 3
    strs = [""]
    for k in range(1, n + 1):
        strs += ["".join(t) for t in it.product(chars, repeat=k)]
    for chunk_start in range(0, len(strs), 40):
        P = Program()
        r = "s_%d" % cid
        P.rel(r, [("i", "number"), ("l", "number")], is_output=True)
        # the length (in bytes) of every constant survives printing iff the escapes are printed correctly
        for i, sv in enumerate(strs[chunk_start:chunk_start + 40]):
            P.rules.append(Rule([Atom(r, [Num(chunk_start + i), Fn("strlen", [Sym(sv)])])], [], None))
        cases.append(Case(cid, "print-string", P, "%d escaped string constants" % len(P.rules), edb={}))
        cid += 1
    return cases


# ------------------------------------------------------------------ C04 inline family

def family_inline(tier, start=0):
    """helper relation h (non-output, non-recursive) x every definition from a small alphabet x every use site shape in the
    main rule x qualifier in {none, inline, no_inline}.  Combinations the semantic checker rejects are skipped by the runner."""
    cases = []
    cid = start
    hdefs = [
        ("copy", [Rule([Atom("H", [X, Y])], [Atom("e", [X, Y])], None)]),
        ("join", [Rule([Atom("H", [X, Y])], [Atom("e", [X, Z]), Atom("e", [Z, Y])], None)]),
        ("filter", [Rule([Atom("H", [X, Y])], [Atom("e", [X, Y]), Atom("a", [Y]), Cmp("!=", X, Y)], None)]),
        ("const", [Rule([Atom("H", [X, Num(0)])], [Atom("a", [X])], None)]),
        ("two-rules", [Rule([Atom("H", [X, Y])], [Atom("e", [X, Y])], None), Rule([Atom("H", [X, X])], [Atom("a", [X])], None)]),
        ("neg", [Rule([Atom("H", [X, Y])], [Atom("e", [X, Y]), Neg(Atom("a", [X]))], None)]),
        ("functor", [Rule([Atom("H", [X, Fn("+", [Y, Num(1)])])], [Atom("e", [X, Y])], None)]),
        ("local-var", [Rule([Atom("H", [X, Y])], [Atom("e", [X, Z]), Atom("e", [Y, Z])], None)]),
    ]
    uses = [
        ("pos", [Atom("H", [X, Y])]),
        ("pos-anon", [Atom("a", [X]), Atom("H", [X, Anon()]), Atom("a", [Y])]),
        ("pos-const", [Atom("H", [X, Num(0)]), Atom("a", [Y])]),
        ("pos-same", [Atom("H", [X, X]), Atom("a", [Y])]),
        ("pos-twice", [Atom("H", [X, Z]), Atom("H", [Z, Y])]),
        ("pos-expr", [Atom("a", [X]), Atom("a", [Y]), Atom("H", [X, Fn("+", [Y, Num(1)])])]),
        ("neg", [Atom("a", [X]), Atom("a", [Y]), Neg(Atom("H", [X, Y]))]),
        ("neg-anon", [Atom("a", [X]), Atom("a", [Y]), Neg(Atom("H", [X, Anon()]))]),
        ("agg-count", [Atom("a", [X]), Cmp("=", Y, Agg("count", None, [Atom("H", [X, Anon()])]))]),
        ("agg-sum", [Atom("a", [X]), Cmp("=", Y, Agg("sum", Z, [Atom("H", [X, Z])]))]),
        ("with-constraint", [Atom("H", [X, Y]), Cmp("<", X, Y)]),
    ]
    for hn, hrules in hdefs:
        for un, ubody in uses:
            for qual in ((), ("inline",), ("no_inline",)):
                P = Program()
                _ae(P)
                h, r = "h_%d" % cid, "r_%d" % cid
                m = {"rel:H": h}
                P.rel(h, [("x", "number"), ("y", "number")], quals=qual)
                P.rel(r, [("x", "number"), ("y", "number")], is_output=True)
                for hr in hrules:
                    P.rules.append(rename(hr, m))
                P.rules.append(rename(Rule([Atom(r, [X, Y])], ubody, None), m))
                cases.append(Case(cid, "inline", P, "h=%s use=%s qual=%s" % (hn, un, "/".join(qual) or "none")))
                cid += 1
    out = []
    for c in cases:
        try:
            ref.stratify(c.prog)
            out.append(c)
        except ref.NotStratifiable:
            pass
    return out


# ------------------------------------------------------------------ C07 plans

def with_plans(case, max_plans=24):
    """All .plan annotations for the rule under test (last rule): every permutation of its body atoms for every delta
    version (version count = number of body atoms in the head's recursive component, at least 1)."""
    import itertools as it
    P = case.prog
    rut = P.rules[-1]
    atoms = [l for l in rut.body if l.__class__ is Atom]
    n = len(atoms)
    if n < 2 or rut.plan:
        return []
    comps, _ = ref.stratify(P)
    scc = None
    for c in comps:
        if rut.heads[0].rel in c:
            scc = set(c)
    nrec = sum(1 for a in atoms if a.rel in scc)
    # is the head relation really recursive (depends on itself)?
    versions = max(1, nrec)
    perms = list(it.permutations(range(1, n + 1)))
    out = []
    combos = it.product(perms, repeat=versions) if len(perms) ** versions <= max_plans else [tuple([p] * versions) for p in perms]
    k = 0
    for combo in combos:
        if all(p == perms[0] for p in combo):
            continue
        plan = ", ".join("%d:(%s)" % (v, ",".join(str(i) for i in p)) for v, p in enumerate(combo))
        Q = Program()
        Q.types, Q.typeinfo, Q.extra = list(P.types), dict(P.typeinfo), list(P.extra)
        for nme, r in P.rels.items():
            Q.rels[nme] = r
        Q.rules = list(P.rules[:-1]) + [Rule(list(rut.heads), list(rut.body), plan)]
        out.append(Case(case.cid * 100 + k, case.family + "-plan", Q, case.desc + " .plan " + plan))
        k += 1
    return out


def rename_case(case, newcid):
    """copy of a core-style case with relation suffix _<cid> replaced (to keep names unique in a batch)"""
    old = "_%d" % case.cid
    new = "_%d" % newcid
    m = {}
    Q = Program()
    Q.types, Q.typeinfo, Q.extra = list(case.prog.types), dict(case.prog.typeinfo), list(case.prog.extra)
    for n, r in case.prog.rels.items():
        if n.endswith(old):
            nn = n[:-len(old)] + new
            m["rel:" + n] = nn
            Q.rel(nn, r.attrs, r.quals, r.choice, r.is_input, r.is_output, r.printsize, r.io_in, r.io_out, r.limitsize)
        else:
            Q.rels[n] = r
    Q.rules = [rename(r, m) for r in case.prog.rules]
    return Case(newcid, case.family, Q, case.desc.replace(old, new), tags=case.tags, edb=case.edb)


# ------------------------------------------------------------------ C08 eqrel family

MINV, MAXV = -2147483648, 2147483647


def family_eqrel(tier, start=0):
    """binary relation declared eqrel, fed by an input relation and by rules, read / filtered / joined / negated / aggregated
    and looked up with the first, the second or both columns bound to a joined value or a constant."""
    cases = []
    cid = start
    uses = [
        ("full", [("x", "y")], [Atom("EQ", [X, Y])]),
        ("first-bound", [("x", "y")], [Atom("q", [X]), Atom("EQ", [X, Y])]),
        ("second-bound", [("x", "y")], [Atom("q", [Y]), Atom("EQ", [X, Y])]),
        ("both-bound", [("x", "y")], [Atom("q", [X]), Atom("q", [Y]), Atom("EQ", [X, Y])]),
        ("const-first", [("x", "y")], [Atom("EQ", [Num(1), Y]), Cmp("=", X, Num(1))]),
        ("const-second", [("x", "y")], [Atom("EQ", [X, Num(2)]), Cmp("=", Y, Num(2))]),
        ("filter", [("x", "y")], [Atom("EQ", [X, Y]), Cmp("<", X, Y)]),
        ("negated", [("x", "y")], [Atom("q", [X]), Atom("q", [Y]), Neg(Atom("EQ", [X, Y]))]),
        ("count", [("x", "y")], [Atom("q", [X]), Cmp("=", Y, Agg("count", None, [Atom("EQ", [X, Anon()])]))]),
        ("join-two", [("x", "y")], [Atom("EQ", [X, Z]), Atom("s", [Z, Y])]),
        ("same", [("x", "y")], [Atom("EQ", [X, X]), Atom("q", [Y])]),
    ]
    feeds = [
        ("input", [Rule([Atom("EQ", [X, Y])], [Atom("s", [X, Y])], None)]),
        ("input+rule", [Rule([Atom("EQ", [X, Y])], [Atom("s", [X, Y])], None), Rule([Atom("EQ", [X, Y])], [Atom("q", [X]), Atom("q", [Y])], None)]),
        ("recursive", [Rule([Atom("EQ", [X, Y])], [Atom("s", [X, Y])], None), Rule([Atom("EQ", [X, Z])], [Atom("EQ", [X, Y]), Atom("s", [Y, Z])], None)]),
    ]
    for fn, frules in feeds:
        for un, _, ubody in uses:
            P = Program()
            P.rel("s", [("x", "number"), ("y", "number")], is_input=True)
            P.rel("q", [("x", "number")], is_input=True)
            eq, r = "eq_%d" % cid, "r_%d" % cid
            m = {"rel:EQ": eq}
            P.rel(eq, [("x", "number"), ("y", "number")], quals=("eqrel",), is_output=True)
            P.rel(r, [("x", "number"), ("y", "number")], is_output=True)
            for fr in frules:
                P.rules.append(rename(fr, m))
            P.rules.append(rename(Rule([Atom(r, [X, Y])], ubody, None), m))
            cases.append(Case(cid, "eqrel", P, "feed=%s use=%s" % (fn, un)))
            cid += 1
    small = [
        {"s": (), "q": ()},
        {"s": ((1, 2),), "q": ((1,), (3,))},
        {"s": ((1, 2), (2, 3), (5, 5)), "q": ((1,), (2,), (5,), (7,))},
        {"s": ((0, 1), (-1, 0), (4, 6), (6, 8)), "q": ((0,), (4,), (8,), (-1,))},
        {"s": ((MAXV, 1), (1, 2), (7, 7)), "q": ((MAXV,), (2,), (7,))},
    ]
    extreme = [
        {"s": ((MINV, 5), (1, 2), (7, 7)), "q": ((MINV,), (1,))},
        {"s": ((MINV, MAXV), (0, 1)), "q": ((MINV,), (MAXV,), (0,))},
        {"s": ((3, MINV), (3, 4)), "q": ((4,), (MINV,))},
    ]
    return cases, small, extreme


def eqrel_partition_dbs():
    """databases that drive EquivalenceRelation::partition() (the parallel scan of an eqrel relation) into each of its branches
    for the interpreter's 20 x threads chunks: more classes than chunks (one iterator per class), a small class beside a much
    larger one (whole-class iterator for the small, per-element iterators for the large)."""
    many = tuple((i, i) for i in range(100, 145)) + ((1, 2), (10, 11), (11, 12))
    many4 = tuple((i, i) for i in range(100, 186)) + ((1, 2), (10, 11), (11, 12))
    chain = tuple((i, i + 1) for i in range(20, 39)) + ((1, 2), (5, 6), (6, 7))
    q = ((1,), (2,), (11,), (30,), (100,), (7,))
    return [{"s": many, "q": q}, {"s": many4, "q": q}, {"s": chain, "q": q}]


# ------------------------------------------------------------------ C22 autoinc / C10 choice / C11 subsumption

def _strip_autoinc(t):
    c = t.__class__
    if c is Autoinc:
        return Num(0)
    if c is Atom:
        return Atom(t.rel, [_strip_autoinc(a) for a in t.args])
    if c is Rule:
        return Rule([_strip_autoinc(h) for h in t.heads], list(t.body), t.plan)
    if c is Fn:
        return Fn(t.op, [_strip_autoinc(a) for a in t.args])
    return t


def family_autoinc(tier, start=0):
    cases = []
    cid = start
    C = Autoinc()
    shapes = [
        ("unary", [("x", "number"), ("c", "number")], [Rule([Atom("R", [X, C])], [Atom("a", [X])], None)]),
        ("binary", [("x", "number"), ("y", "number"), ("c", "number")], [Rule([Atom("R", [X, Y, C])], [Atom("e", [X, Y])], None)]),
        ("join", [("x", "number"), ("y", "number"), ("c", "number")], [Rule([Atom("R", [X, Y, C])], [Atom("e", [X, Z]), Atom("e", [Z, Y])], None)]),
        ("two-rules", [("x", "number"), ("y", "number"), ("c", "number")],
         [Rule([Atom("R", [X, Num(-1), C])], [Atom("a", [X])], None), Rule([Atom("R", [X, Y, C])], [Atom("e", [X, Y]), Cmp("<=", Num(0), Y)], None)]),
        ("filter", [("x", "number"), ("y", "number"), ("c", "number")], [Rule([Atom("R", [X, Y, C])], [Atom("e", [X, Y]), Neg(Atom("a", [Y])), Cmp("!=", X, Y)], None)]),
        ("expr", [("x", "number"), ("y", "number"), ("c", "number")], [Rule([Atom("R", [X, Y, Fn("*", [C, Num(2)])])], [Atom("e", [X, Y])], None)]),
        ("two-counters", [("x", "number"), ("c", "number"), ("d", "number")], [Rule([Atom("R", [X, C, C])], [Atom("a", [X])], None)]),
    ]
    for name, attrs, rules in shapes:
        P = Program()
        _ae(P)
        r = "r_%d" % cid
        P.rel(r, attrs, is_output=True)
        Q = Program()
        _ae(Q)
        Q.rel(r, attrs, is_output=True)
        for ru in rules:
            rr = rename(ru, {"rel:R": r}) if False else Rule([Atom(r, list(h.args)) for h in ru.heads], list(ru.body), None)
            P.rules.append(rr)
            Q.rules.append(_strip_autoinc(rr))
        ncount = 2 if name == "two-counters" else 1
        cases.append(Case(cid, "autoinc", P, name + ": " + " ".join(show(x) for x in P.rules), tags=("autoinc", ncount, name), ref_prog=Q, ref_map={r: r}))
        cid += 1
    return cases


def family_choice(tier, start=0):
    """relations with choice-domain keys; every case depends on EDB relations and on itself only"""
    cases = []
    cid = start
    shapes = [
        ("key-x", [("x", "number"), ("y", "number")], (("x",),), [Rule([Atom("R", [X, Y])], [Atom("e", [X, Y])], None)]),
        ("key-y", [("x", "number"), ("y", "number")], (("y",),), [Rule([Atom("R", [X, Y])], [Atom("e", [X, Y])], None)]),
        ("keys-x-and-y", [("x", "number"), ("y", "number")], (("x",), ("y",)), [Rule([Atom("R", [X, Y])], [Atom("e", [X, Y])], None)]),
        ("composite", [("x", "number"), ("y", "number"), ("z", "number")], (("x", "y"),),
         [Rule([Atom("R", [X, Y, Z])], [Atom("e", [X, Y]), Atom("e", [Y, Z])], None)]),
        ("two-rules", [("x", "number"), ("y", "number")], (("x",),),
         [Rule([Atom("R", [X, Y])], [Atom("e", [X, Y])], None), Rule([Atom("R", [X, Num(-1)])], [Atom("a", [X])], None)]),
        ("join", [("x", "number"), ("y", "number")], (("x",),), [Rule([Atom("R", [X, Y])], [Atom("e", [X, Z]), Atom("e", [Z, Y]), Cmp("!=", X, Y)], None)]),
        ("recursive-tree", [("x", "number"), ("y", "number")], (("y",),),
         [Rule([Atom("R", [X, Y])], [Atom("a", [X]), Atom("e", [X, Y])], None), Rule([Atom("R", [Y, Z])], [Atom("R", [Anon(), Y]), Atom("e", [Y, Z])], None)]),
        ("recursive-chain", [("x", "number"), ("y", "number")], (("x",),),
         [Rule([Atom("R", [X, Y])], [Atom("a", [X]), Atom("e", [X, Y])], None), Rule([Atom("R", [Y, Z])], [Atom("R", [X, Y]), Atom("e", [Y, Z])], None)]),
    ]
    for name, attrs, keys, rules in shapes:
        P = Program()
        _ae(P)
        r = "r_%d" % cid
        P.rel(r, attrs, choice=keys, is_output=True)
        Q = Program()
        _ae(Q)
        Q.rel(r, attrs, is_output=True)
        for ru in rules:
            rr = rename(ru, {"rel:R": r})
            P.rules.append(rr)
            Q.rules.append(rr)
        keyidx = tuple(tuple([a for a, _ in attrs].index(k) for k in key) for key in keys)
        cases.append(Case(cid, "choice", P, name + ": " + print_decl(P.rels[r]), tags=("choice", keyidx, name), ref_prog=Q, ref_map={r: r}))
        cid += 1
    return cases


def family_subsume(tier, start=0):
    cases = []
    cid = start
    C1, C2 = Var("c1"), Var("c2")
    # weighted edges w3(x,y,w), sources a(x)
    shapes = [
        ("min-per-key", [("x", "number"), ("c", "number")],
         [Rule([Atom("R", [X, Y])], [Atom("e", [X, Y])], None)],
         Subsume(Atom("R", [X, C1]), Atom("R", [X, C2]), [Cmp("<", C2, C1)]), True),
        ("max-per-key", [("x", "number"), ("c", "number")],
         [Rule([Atom("R", [X, Y])], [Atom("e", [X, Y])], None)],
         Subsume(Atom("R", [X, C1]), Atom("R", [X, C2]), [Cmp("<", C1, C2)]), True),
        ("global-min", [("x", "number"), ("c", "number")],
         [Rule([Atom("R", [Num(0), Y])], [Atom("e", [Anon(), Y])], None)],
         Subsume(Atom("R", [X, C1]), Atom("R", [X, C2]), [Cmp("<", C2, C1)]), True),
        ("lexicographic", [("x", "number"), ("c", "number")],
         [Rule([Atom("R", [X, Y])], [Atom("e", [X, Y])], None), Rule([Atom("R", [X, Num(7)])], [Atom("a", [X])], None)],
         Subsume(Atom("R", [X, C1]), Atom("R", [Y, C2]), [Cmp("<=", Y, X), Cmp("<", C2, C1)]), False),
        ("shortest-distance", [("x", "number"), ("c", "number")],
         [Rule([Atom("R", [X, Num(0)])], [Atom("a", [X])], None),
          Rule([Atom("R", [Y, Fn("+", [Var("c"), Var("w")])])], [Atom("R", [X, Var("c")]), Atom("w3", [X, Y, Var("w")]), Cmp("<", Fn("+", [Var("c"), Var("w")]), Num(12))], None)],
         Subsume(Atom("R", [X, C1]), Atom("R", [X, C2]), [Cmp("<", C2, C1)]), True),
        ("widest-path", [("x", "number"), ("c", "number")],
         [Rule([Atom("R", [X, Num(9)])], [Atom("a", [X])], None),
          Rule([Atom("R", [Y, Fn("min", [Var("c"), Var("w")])])], [Atom("R", [X, Var("c")]), Atom("w3", [X, Y, Var("w")])], None)],
         Subsume(Atom("R", [X, C1]), Atom("R", [X, C2]), [Cmp("<", C1, C2)]), True),
    ]
    for name, attrs, rules, sub, monotone in shapes:
        P = Program()
        _ae(P)
        P.rel("w3", [("x", "number"), ("y", "number"), ("w", "number")], is_input=True)
        r = "r_%d" % cid
        m = {"rel:R": r}
        P.rel(r, attrs, quals=("btree_delete",), is_output=True)
        Q = Program()
        _ae(Q)
        Q.rel("w3", [("x", "number"), ("y", "number"), ("w", "number")], is_input=True)
        Q.rel(r, attrs, is_output=True)
        for ru in rules:
            rr = rename(ru, m)
            P.rules.append(rr)
            Q.rules.append(rr)
        P.rules.append(rename(sub, m))
        cases.append(Case(cid, "subsume", P, name + ": " + show(P.rules[-1]), tags=("subsume", monotone, name), ref_prog=Q, ref_map={r: r}))
        cid += 1
    # structural family: the subsumptive relation inside different recursion structures x {min, max} order x partner relations whose
    # names sort before / after it (the order in which the relations of one SCC are evaluated follows the names)
    Cv, Wv = Var("c"), Var("w")
    orders = [
        ("min", Num(0), Fn("+", [Cv, Wv]), [Cmp("<", Fn("+", [Cv, Wv]), Num(12))], lambda r: Subsume(Atom(r, [X, C1]), Atom(r, [X, C2]), [Cmp("<", C2, C1)])),
        ("max", Num(9), Fn("min", [Cv, Wv]), [], lambda r: Subsume(Atom(r, [X, C1]), Atom(r, [X, C2]), [Cmp("<", C1, C2)])),
    ]
    attrs2 = [("x", "number"), ("c", "number")]
    for oname, c0, newc, guard, mksub in orders:
        def init(r):
            return Rule([Atom(r, [X, c0])], [Atom("a", [X])], None)

        def step(h, src):
            return Rule([Atom(h, [Y, newc])], [Atom(src, [X, Cv]), Atom("w3", [X, Y, Wv])] + guard, None)

        def copy_(h, src):
            return Rule([Atom(h, [X, Cv])], [Atom(src, [X, Cv])], None)

        for pos in ("ah", "zh"):
            structs = [
                ("direct", lambda r, h, g: [init(r), step(r, r)], (), ()),
                ("mutual-step-in-partner", lambda r, h, g: [init(r), step(h, r), copy_(r, h)], ("h",), ()),
                ("mutual-step-in-self", lambda r, h, g: [init(r), copy_(h, r), step(r, h)], ("h",), ()),
                ("three-cycle", lambda r, h, g: [init(r), step(h, r), copy_(g, h), copy_(r, g)], ("h", "g"), ()),
                ("both-subsumptive", lambda r, h, g: [init(r), step(h, r), copy_(r, h)], ("h",), ("h",)),
                ("downstream", lambda r, h, g: [init(r), step(r, r), copy_(h, r)], ("h",), ("h-out",)),
            ]
            for sname, mk, partners, special in structs:
                if not partners and pos == "zh":
                    continue
                P, Q = Program(), Program()
                for PP in (P, Q):
                    _ae(PP)
                    PP.rel("w3", [("x", "number"), ("y", "number"), ("w", "number")], is_input=True)
                r = "r_%d" % cid
                h = "%s_%d" % (pos, cid)
                g = "%sg_%d" % (pos, cid)
                P.rel(r, attrs2, quals=("btree_delete",), is_output=True)
                Q.rel(r, attrs2, is_output=True)
                rmap = {r: r}
                for pn, nm in (("h", h), ("g", g)):
                    if pn in partners:
                        sub_too = pn in special
                        out_too = sub_too or (pn + "-out") in special
                        P.rel(nm, attrs2, quals=("btree_delete",) if sub_too else (), is_output=out_too)
                        Q.rel(nm, attrs2, is_output=out_too)
                        if out_too:
                            rmap[nm] = nm
                for ru in mk(r, h, g):
                    P.rules.append(ru)
                    Q.rules.append(ru)
                P.rules.append(mksub(r))
                if "h" in special:
                    P.rules.append(mksub(h))
                cases.append(Case(cid, "subsume", P, "%s/%s partner-prefix=%s: %s" % (sname, oname, pos, "; ".join(show(x) for x in P.rules)),
                                  tags=("subsume", True, sname), ref_prog=Q, ref_map=rmap))
                cid += 1
    dbs = []
    for a in (((0,),), ((0,), (3,))):
        for e, w in ((((0, 1), (0, 2), (1, 5), (1, 3), (2, 2)), ((0, 1, 2), (1, 2, 2), (0, 2, 7), (2, 3, 1), (3, 0, 1))),
                     (((0, 4), (0, 4), (3, 1), (3, 0), (0, 0)), ((0, 1, 1), (1, 0, 1), (1, 2, 9), (0, 2, 3), (3, 2, 1), (2, 4, 2), (4, 1, 1))),
                     ((), ())):
            dbs.append({"a": a, "e": tuple(sorted(set(e))), "w3": w})
    return cases, dbs
