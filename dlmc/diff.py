"""Generic batched differential machinery: run many small cases (merged into batch programs) on many
databases under many configurations and compare every output relation with the reference model."""
import os, json, time, traceback, shutil
from .common import *
from . import ref, run
from .dl import print_program, show
from .vals import Undefined, to_text, ParseError
from .run import merge_programs, GenError


class Config:
    """How to execute: mode in interp|compiled|multi; jobs; extra souffle args; env; binary override."""

    def __init__(self, name, mode="interp", jobs=1, extra=(), env=None, binary=None, runtime_extra=()):
        self.name, self.mode, self.jobs, self.extra, self.env, self.binary = name, mode, jobs, tuple(extra), env, binary
        self.runtime_extra = tuple(runtime_extra)

    def to_json(self):
        return {"name": self.name, "mode": self.mode, "jobs": self.jobs, "extra": list(self.extra),
                "env": self.env, "binary": self.binary, "runtime_extra": list(self.runtime_extra)}

    @staticmethod
    def from_json(d):
        return Config(d["name"], d["mode"], d["jobs"], d["extra"], d.get("env"), d.get("binary"), d.get("runtime_extra", ()))


_CTX = {}


class TransformViolation(Exception):
    def __init__(self, msg, detail=""):
        Exception.__init__(self, msg)
        self.detail = detail


def tuples_text(ts):
    return sorted("\t".join(to_text(v) for v in t) for t in ts)


def edb_text(db):
    return {r: ["\t".join(to_text(v) for v in t) for t in ts] for r, ts in db.items()}


def _exec(cfg, dl, exe, facts_dir, out_dir, timeout, shared=None):
    env = None
    if cfg.env:
        env = dict(os.environ)
        env.update(cfg.env)
    if cfg.mode == "interp":
        binary = cfg.binary or SOUFFLE
        cmd = [binary, "--no-preprocessor", "-w", "-F", facts_dir, "-D", out_dir, "-j", str(cfg.jobs), *[x.replace("{out}", out_dir).replace("{shared}", shared or out_dir) for x in cfg.extra], dl]
    else:
        cmd = [exe, "-F", facts_dir, "-D", out_dir, "-j", str(cfg.jobs), *cfg.runtime_extra]
    os.makedirs(out_dir, exist_ok=True)
    rc, so, se = sh(cmd, timeout=timeout, env=env)
    if rc is None:
        rc, so, se = sh(cmd, timeout=timeout * 10, env=env)
    return rc, so, se


def ref_outputs(case, db):
    """expected contents of the case's output relations according to the reference model"""
    if case.ref_prog is not None:
        full = ref.evaluate(case.ref_prog, db)
        return {n: full[case.ref_map[n]] for n in case.outputs()}
    full = ref.evaluate(case.prog, db)
    return {n: full[n] for n in case.outputs()}


def _ref_for(case, db, cache):
    key = (case.cid, id(db))
    if key in cache:
        return cache[key]
    try:
        res = ref_outputs(case, db)
    except Undefined as e:
        res = ("undefined", str(e))
    cache[key] = res
    return res


def _job(arg):
    """One (batch, db) pair under all configs. Returns dict with mismatches and counters."""
    bi, di = arg
    ctx = _CTX
    batch = ctx["batches"][bi]
    db = ctx["dbs"][di] if di is not None else None
    wd = ctx["workdir"]
    out = {"bi": bi, "di": di, "mismatch": [], "fail": [], "evals": 0, "undefined": 0, "nonempty": set(), "dups": 0,
           "outcomes": set()}
    refcache = {}
    try:
        for ci, cfg in enumerate(ctx["configs"]):
            if ctx["config_filter"] and not ctx["config_filter"](cfg, bi):
                continue
            facts_dir = os.path.join(wd, "db%d" % di) if di is not None else os.path.join(wd, "b%d_facts" % bi)
            out_dir = os.path.join(wd, "out", "b%d_d%s_c%d" % (bi, di, ci))
            shutil.rmtree(out_dir, ignore_errors=True)
            dl = os.path.join(wd, "b%d.dl" % bi)
            exe = ctx["exes"].get((bi, cfg.mode, cfg.extra, cfg.binary))
            if cfg.mode != "interp" and exe is None:
                continue    # build failed; reported by the build phase
            shared = os.path.join(wd, "out", "b%d_d%s_shared" % (bi, di))
            os.makedirs(shared, exist_ok=True)
            rc, so, se = _exec(cfg, dl, exe, facts_dir, out_dir, ctx["timeout"], shared)
            if rc != 0:
                out["fail"].append((ci, rc, se[-1500:]))
                shutil.rmtree(out_dir, ignore_errors=True)
                continue
            merged = ctx["merged"][bi]
            if ctx.get("post_run") is not None:
                for cid, msg in ctx["post_run"](batch, db, cfg, out_dir, shared):
                    out["mismatch"].append((cid, ci, "<post>", msg, None, None))
            for case in batch:
                cdb = db if case.edb is None else case.edb
                exp = _ref_for(case, cdb, refcache)
                if isinstance(exp, tuple):
                    if ci == 0:
                        out["undefined"] += 1
                    continue
                out["evals"] += 1
                for rel in case.outputs():
                    try:
                        got, dups = run.read_relation(os.path.join(out_dir, rel + ".csv"), case.prog.rels[rel], case.prog.typeinfo)
                    except ParseError as e:
                        out["mismatch"].append((case.cid, ci, rel, "unreadable output: %s" % e, None, None))
                        continue
                    oracle = ctx.get("oracle")
                    if dups:
                        out["mismatch"].append((case.cid, ci, rel, "duplicate tuples in output", tuples_text(exp[rel]), tuples_text(got)))
                    elif oracle is not None:
                        msg = oracle(case, cdb, rel, got, exp[rel])
                        if msg:
                            out["mismatch"].append((case.cid, ci, rel, msg, tuples_text(exp[rel]), tuples_text(got)))
                    elif got != exp[rel]:
                        out["mismatch"].append((case.cid, ci, rel, "differs from reference model", tuples_text(exp[rel]), tuples_text(got)))
                    if exp[rel]:
                        out["nonempty"].add(case.cid)
                    if ci == 0:
                        out["outcomes"].add(hash((case.cid, frozenset(exp[rel]))))
            shutil.rmtree(out_dir, ignore_errors=True)
    except Exception:
        out["fail"].append((-1, "exception", traceback.format_exc()[-3000:]))
    shutil.rmtree(os.path.join(wd, "out", "b%d_d%s_shared" % (bi, di)), ignore_errors=True)
    return out


def _build_job(arg):
    bi, mode, extra, binary = arg
    wd = _CTX["workdir"]
    dl = os.path.join(wd, "b%d.dl" % bi)
    bdir = os.path.join(wd, "exe", "b%d_%s_%s" % (bi, mode, stable_hash(repr((extra, binary)))))
    try:
        if binary:
            old = run.SOUFFLE
        exe = run.build_compiled(dl, bdir, "prog", extra=extra, multi=(mode == "multi"), souffle_bin=binary)
        return (bi, mode, extra, binary, exe, None)
    except GenError as e:
        return (bi, mode, extra, binary, None, str(e))
    except CheckError as e:
        return (bi, mode, extra, binary, None, "CHECKERROR " + str(e))


def run_single(case, db, cfg, workdir, timeout=60):
    """Run one case alone; returns (rc, {rel: (set,dups)} or None, stderr)."""
    d = fresh_dir(*os.path.relpath(workdir, WORK).split(os.sep), "single_%d" % case.cid)
    dl = os.path.join(d, "case.dl")
    with open(dl, "w", encoding="latin-1") as f:
        f.write(print_program(case.prog))
    facts = os.path.join(d, "facts")
    os.makedirs(facts, exist_ok=True)
    cdb = db if case.edb is None else case.edb
    for n, r in case.prog.rels.items():
        if r.is_input:
            run.write_facts(facts, n, cdb.get(n, ()))
    exe = None
    if cfg.mode != "interp":
        try:
            exe = run.build_compiled(dl, os.path.join(d, "exe"), "prog", extra=cfg.extra, multi=(cfg.mode == "multi"), souffle_bin=cfg.binary)
        except GenError as e:
            return "build", None, str(e)
    rc, so, se = _exec(cfg, dl, exe, facts, os.path.join(d, "out"), timeout)
    if rc != 0:
        return rc, None, se
    try:
        res = run.read_outputs(os.path.join(d, "out"), case.prog)
    except ParseError as e:
        return "parse", None, str(e)
    return 0, res, se


def minimise_db(case, db, cfg, workdir, still_bad):
    """Greedy removal of facts while the case still misbehaves."""
    if case.edb is not None:
        return case.edb
    cur = {r: list(ts) for r, ts in db.items()}
    changed = True
    while changed:
        changed = False
        for r in list(cur):
            for t in list(cur[r]):
                trial = {k: [x for x in v if not (k == r and x == t)] for k, v in cur.items()}
                if still_bad(trial):
                    cur = trial
                    changed = True
    return cur


def replay_obj(case, db, cfg, expected, actual, note):
    cdb = db if case.edb is None else case.edb
    return {"kind": "dl", "family": case.family, "case": case.desc, "program": print_program(case.prog),
            "facts": edb_text({n: cdb.get(n, ()) for n, r in case.prog.rels.items() if r.is_input}),
            "outputs": case.outputs(), "config": cfg.to_json(), "expected": expected, "actual": actual, "note": note, "tags": list(case.tags)}


def differential(rep, cases, dbs, configs, name, batch_size=150, timeout=120, deadline=None, classify=None,
                 config_filter=None, on_reject="count", oracle=None, text_transform=None, post_run=None):
    """Run every case on every db under every config; compare with the reference model.
    classify(case, db, cfg, rel, why) -> known-finding entry or None."""
    global _CTX
    wd = fresh_dir(rep.pid, name)
    cases = [c for c in cases if c is not None]
    batches = list(chunks(cases, batch_size))
    merged = [merge_programs([c.prog for c in b]) for b in batches]
    for bi, m in enumerate(merged):
        text = print_program(m)
        if text_transform is not None:
            try:
                text = text_transform(bi, text, wd)
            except TransformViolation as e:
                rep.violation(str(e), {"kind": "dl-transform", "program": print_program(m), "detail": e.detail})
        with open(os.path.join(wd, "b%d.dl" % bi), "w", encoding="latin-1") as f:
            f.write(text)
    # facts
    if dbs:
        rels = {}
        for m in merged:
            for n, r in m.rels.items():
                if r.is_input:
                    rels[n] = r
        for di, db in enumerate(dbs):
            fd = os.path.join(wd, "db%d" % di)
            for n in rels:
                run.write_facts(fd, n, db.get(n, ()))
    else:
        # every case carries its own fixed database; relations must be case-private
        for bi, b in enumerate(batches):
            fd = os.path.join(wd, "b%d_facts" % bi)
            os.makedirs(fd, exist_ok=True)
            for c in b:
                for n, r in c.prog.rels.items():
                    if r.is_input:
                        run.write_facts(fd, n, c.edb.get(n, ()))
    _CTX = {"batches": batches, "dbs": dbs, "configs": configs, "workdir": wd, "merged": merged, "timeout": timeout,
            "exes": {}, "config_filter": config_filter, "oracle": oracle, "post_run": post_run}
    by_id = {c.cid: c for c in cases}

    # ---- preflight: every batch must be accepted by souffle (find and drop rejected cases)
    rejected = []
    pre = pmap(_preflight, range(len(batches)))
    redo = False
    for bi, (rc, se) in enumerate(pre):
        if rc != 0:
            # find offenders by running each case alone through the front end
            offenders = pmap(_preflight_single, [(bi, k) for k in range(len(batches[bi]))])
            bad = [batches[bi][k] for k, (rc2, se2) in enumerate(offenders) if rc2 != 0]
            for k, (rc2, se2) in enumerate(offenders):
                if rc2 != 0:
                    rejected.append((batches[bi][k], rc2, se2))
            if not bad:
                rep.error("batch %d of %s is rejected (rc=%s) although every case alone is accepted: %s" % (bi, name, rc, se[-800:]))
            batches[bi] = [c for c in batches[bi] if c not in bad]
            merged[bi] = merge_programs([c.prog for c in batches[bi]]) if batches[bi] else None
            if merged[bi] is not None:
                with open(os.path.join(wd, "b%d.dl" % bi), "w", encoding="latin-1") as f:
                    f.write(print_program(merged[bi]))
    for c, rc, se in rejected:
        rep.add("rejected_by_souffle")
        if rc is None or (isinstance(rc, int) and rc < 0):
            rep.violation("front end died (rc=%s) on a generated program: %s" % (rc, c.desc),
                          replay_obj(c, {}, configs[0], None, None, "front-end crash: " + se[-500:]))
        elif on_reject == "violation":
            rep.violation("well-formed program rejected: %s: %s" % (c.desc, se[-300:]),
                          replay_obj(c, {}, configs[0], None, None, "rejected: " + se[-500:]))
        else:
            rep.cov.setdefault("rejected_cases", []).append({"case": c.desc, "stderr": se[-300:]})
    live = [bi for bi in range(len(batches)) if batches[bi]]

    # ---- build phase for compiled configs
    builds = set()
    for cfg in configs:
        if cfg.mode != "interp":
            for bi in live:
                if config_filter and not config_filter(cfg, bi):
                    continue
                builds.add((bi, cfg.mode, cfg.extra, cfg.binary))
    if builds:
        single = sorted([b for b in builds if b[1] != "multi"], key=repr)
        multi = sorted([b for b in builds if b[1] == "multi"], key=repr)
        results = pmap(_build_job, single) + [_build_job(b) for b in multi]   # multi-file builds are parallel inside
        for bi, mode, extra, binary, exe, err in results:
            if exe is None and err.startswith("CHECKERROR "):
                rep.error(err)
            elif exe is None:
                # a generated program that souffle accepted but whose C++ does not build
                rep.violation("compiled mode failed to build batch %d (%s): %s" % (bi, mode, err[-600:]),
                              {"kind": "dl-build", "program": print_program(merged[bi]), "mode": mode, "extra": list(extra), "error": err[-3000:]})
            else:
                _CTX["exes"][(bi, mode, extra, binary)] = exe

    # ---- main sweep
    jobs = [(bi, di) for bi in live for di in (range(len(dbs)) if dbs else [None])]
    nonempty = set()
    outcomes = set()
    nmis = 0
    nattrib = 0
    done = 0
    for res in pmap_unordered(_job, jobs):
        done += 1
        rep.add("evaluations", res["evals"] * 1)
        rep.add("undefined_skipped", res["undefined"])
        nonempty |= res["nonempty"]
        outcomes |= res["outcomes"]
        bi, di = res["bi"], res["di"]
        db = dbs[di] if di is not None else None
        for (ci, rc, se) in res["fail"]:
            if ci == -1:
                rep.error("worker exception: " + se)
                continue
            cfg = configs[ci]
            # a member whose evaluation leaves the defined value domain (division by zero, ...) legitimately
            # aborts the whole batch: nothing can be concluded from this (batch, db) pair
            undef = False
            for c in batches[bi]:
                try:
                    ref_outputs(c, db if c.edb is None else c.edb)
                except Undefined:
                    undef = True
                    break
            if undef:
                rep.add("batch_runs_aborted_by_undefined_member")
                continue
            if classify:
                kfs = [classify(c, db, cfg, None, "exit") for c in batches[bi]]
                if kfs and all(kfs):
                    rep.known_finding(kfs[0], batches[bi][0].desc)
                    continue
            nattrib += 1
            if nattrib > 3:
                rep.violation("batch %d failed (rc=%s) under %s: %s" % (bi, rc, cfg.name, se[-300:]),
                              {"kind": "dl-batch", "program": print_program(merged[bi]), "facts": edb_text(db or {}), "config": cfg.to_json(), "error": se})
                continue
            # attribute the failure to a single case
            found = False
            for c in batches[bi]:
                rc1, r1, se1 = run_single(c, db, cfg, wd)
                if rc1 != 0:
                    found = True
                    try:
                        exp = ref_outputs(c, db if c.edb is None else c.edb)
                    except Undefined:
                        continue   # evaluation error outside the defined domain (e.g. division by zero): not a violation
                    kf = classify(c, db, cfg, None, "exit") if classify else None
                    if kf:
                        rep.known_finding(kf, c.desc)
                        continue
                    rep.violation("souffle failed (rc=%s) under %s on %s: %s" % (rc1, cfg.name, c.desc, se1[-300:]),
                                  replay_obj(c, db, cfg, {n: tuples_text(exp[n]) for n in c.outputs()}, None, "exit status %s: %s" % (rc1, se1[-800:])))
                    nmis += 1
                    if nmis > 40:
                        break
            if not found:
                rep.violation("batch %d failed (rc=%s) under %s although each case alone succeeds: %s" % (bi, rc, cfg.name, se[-300:]),
                              {"kind": "dl-batch", "program": print_program(merged[bi]), "facts": edb_text(db or {}), "config": cfg.to_json(), "error": se})
        for (cid, ci, rel, why, exp_t, got_t) in res["mismatch"]:
            if nmis > 40:
                rep.capped("more than 40 mismatches; stopped confirming")
                break
            c = by_id[cid]
            cfg = configs[ci]
            kf = classify(c, db, cfg, rel, why) if classify else None
            if kf:
                rep.known_finding(kf, c.desc)
                continue
            if rel == "<post>":
                rep.violation("%s under %s: %s" % (c.desc, cfg.name, why),
                              {"kind": "dl-post", "program": print_program(c.prog), "facts": edb_text(db if c.edb is None else c.edb), "config": cfg.to_json(), "why": why})
                nmis += 1
                continue
            # confirm on the single-case program
            rc1, r1, se1 = run_single(c, db, cfg, wd)
            cdb = db if c.edb is None else c.edb
            exp = ref_outputs(c, cdb)

            def differs(res, expected, thedb):
                for n in c.outputs():
                    if res[n][1]:
                        return True
                    if oracle is not None:
                        if oracle(c, thedb, n, res[n][0], expected[n]):
                            return True
                    elif res[n][0] != expected[n]:
                        return True
                return False
            single_bad = rc1 != 0 or differs(r1, exp, cdb)
            if single_bad:
                def still_bad(trial):
                    try:
                        e2 = ref_outputs(c, trial)
                    except Undefined:
                        return False
                    rc2, r2, _ = run_single(c, trial, cfg, wd)
                    return rc2 != 0 or differs(r2, e2, trial)
                mdb = minimise_db(c, cdb, cfg, wd, still_bad) if c.edb is None else cdb
                e2 = ref_outputs(c, mdb)
                rc2, r2, se2 = run_single(c, mdb, cfg, wd)
                act = {n: tuples_text(r2[n][0]) for n in c.outputs()} if r2 else None
                rep.violation("%s under %s: %s (%s)" % (c.desc, cfg.name, why, rel),
                              replay_obj(c, mdb, cfg, {n: tuples_text(e2[n]) for n in c.outputs()}, act, why))
            else:
                rep.violation("%s under %s in batch %d: %s (%s); the case alone agrees with the model" % (c.desc, cfg.name, bi, why, rel),
                              {"kind": "dl-batch", "program": print_program(merged[bi]), "facts": edb_text(cdb), "config": cfg.to_json(),
                               "relation": rel, "expected": exp_t, "actual": got_t})
            nmis += 1
        if deadline is not None and deadline.expired():
            rep.capped("deadline reached after %d of %d (batch,db) jobs of %s" % (done, len(jobs), name))
            break
    rep.add("programs", sum(len(batches[bi]) for bi in live))
    rep.add("distinct_nontrivial", len(nonempty))
    rep.add("distinct_outcomes", len(outcomes))
    rep.add("databases", len(dbs) if dbs else 0)
    shutil.rmtree(wd, ignore_errors=True)
    return rejected


def _preflight(bi):
    wd = _CTX["workdir"]
    rc, so, se = sh([SOUFFLE, "--no-preprocessor", "-w", "--show=parse-errors", os.path.join(wd, "b%d.dl" % bi)], timeout=300)
    if rc == 0:
        # parse-errors only covers the parser; run the semantic pipeline too (no evaluation: empty fact dir, no output)
        rc, so, se = sh([SOUFFLE, "--no-preprocessor", "-w", "--show=transformed-ast", os.path.join(wd, "b%d.dl" % bi)], timeout=600)
    return rc, se


def _preflight_single(arg):
    bi, k = arg
    wd = _CTX["workdir"]
    c = _CTX["batches"][bi][k]
    p = os.path.join(wd, "pre_%d_%d.dl" % (bi, k))
    with open(p, "w", encoding="latin-1") as f:
        f.write(print_program(c.prog))
    rc, so, se = sh([SOUFFLE, "--no-preprocessor", "-w", "--show=transformed-ast", p], timeout=120)
    os.unlink(p)
    return rc, se


# ------------------------------------------------------------------ replay of a stored dl violation

def replay_dl(obj, workname="replay", judge=None):
    """Re-execute a stored replay without the explorer. Returns (violates: bool, observation: str).
    judge(rel, got_lines, expected_lines, obj) -> bool (bad) replaces the equality comparison."""
    d = fresh_dir("replay", workname)
    dl = os.path.join(d, "case.dl")
    with open(dl, "w", encoding="latin-1") as f:
        f.write(obj["program"])
    facts = os.path.join(d, "facts")
    os.makedirs(facts, exist_ok=True)
    for r, lines in obj.get("facts", {}).items():
        with open(os.path.join(facts, r + ".facts"), "w", encoding="latin-1", newline="") as f:
            for l in lines:
                f.write(l + "\n")
    cfg = Config.from_json(obj["config"])
    exe = None
    if cfg.mode != "interp":
        try:
            exe = run.build_compiled(dl, os.path.join(d, "exe"), "prog", extra=cfg.extra, multi=(cfg.mode == "multi"), souffle_bin=cfg.binary)
        except GenError as e:
            return True, "build failed: " + str(e)[-500:]
    out = os.path.join(d, "out")
    rc, so, se = _exec(cfg, dl, exe, facts, out, 120)
    if rc != 0:
        return True, "exit status %s: %s" % (rc, se[-500:])
    if obj.get("expected") is None:
        return False, "ran successfully"
    obs = {}
    bad = False
    for rel in obj["outputs"]:
        p = os.path.join(out, rel + ".csv")
        lines = []
        if os.path.exists(p):
            with open(p, encoding="latin-1", newline="") as f:
                data = f.read()
            lines = data.split("\n")
            if lines and lines[-1] == "":
                lines.pop()
        obs[rel] = sorted(lines)
        if judge is not None:
            if judge(rel, lines, obj["expected"][rel], obj):
                bad = True
        elif sorted(lines) != sorted(obj["expected"][rel]):
            # compare as text; expected was produced by to_text which is souffle's canonical print form for ints/symbols
            bad = True
    return bad, json.dumps(obs, sort_keys=True)
